//! Abstract packages for fast check: declarations with reference lists, functions / variables / class
//! members described the way the Lean models (`DG/Erase.lean`, `DG/Trace.lean`) see them; rendering
//! to TypeScript; encoding for the model; extraction of the same canonical description from the
//! text fast check emits.
use crate::rng::Rng;
use serde_json::json;

#[derive(Clone, Debug, PartialEq)]
pub enum LitK {
  Num(String),
  Str(String),
  Bool(bool),
  Null,
  Regex,
}

#[derive(Clone, Debug, PartialEq)]
pub enum Expr {
  Lit(LitK),
  Tpl,
  /// `value as T` (simple T) / `value as typeof x` (not simple)
  AsT { ty: String, simple: bool },
  /// a call / `new`: nothing can be said about it
  Opaque(String),
  /// left verbatim: identifier, member, arithmetic over identifiers, arrays/objects of those
  Leave(String),
}

#[derive(Clone, Debug, PartialEq)]
pub struct Param {
  pub name: String,
  pub opt: bool,
  pub rest: bool,
  pub ty: Option<String>,
  pub dflt: Option<Expr>,
}

#[derive(Clone, Copy, Debug, PartialEq)]
pub enum RetAnalysis {
  None,
  Void,
  Single,
  Multiple,
}

#[derive(Clone, Debug, PartialEq)]
pub struct Fn {
  pub params: Vec<Param>,
  pub ret: Option<String>,
  pub is_async: bool,
  pub is_gen: bool,
  pub analysis: RetAnalysis,
}

#[derive(Clone, Debug, PartialEq)]
pub enum Init {
  Expr(Expr),
  Arrow { f: Fn, expr_body: Option<Expr> },
  FnExpr(Fn),
}

#[derive(Clone, Copy, Debug, PartialEq)]
pub enum Access {
  Pub,
  Priv,
  Prot,
}

#[derive(Clone, Copy, Debug, PartialEq)]
pub enum FnKind {
  DeclLike,
  Getter,
  Setter,
}

#[derive(Clone, Debug, PartialEq)]
pub enum Member {
  Prop { name: String, access: Access, is_static: bool, readonly: bool, ty: Option<String>, init: Option<Init> },
  Method { name: String, access: Access, is_static: bool, kind: FnKind, f: Fn },
  /// `overloads`: overload signatures written before the implementation
  Ctor { access: Access, params: Vec<(Param, Option<(Access, bool)>)>, calls_super: bool, overloads: usize },
  EsPrivate(String),
  StaticBlock,
  /// auto-accessor
  Accessor { name: String, access: Access, is_static: bool, ty: Option<String>, init: Option<Expr> },
}

#[derive(Clone, Debug, PartialEq)]
pub enum DeclKind {
  Function { f: Fn, overloads: usize },
  Var { is_const: bool, ty: Option<String>, init: Option<Init> },
  Class { extends: Option<String>, implements: Vec<String>, members: Vec<Member> },
  Interface { extends: Vec<String>, props: Vec<(String, String)> },
  TypeAlias { ty: String },
  Enum,
  /// `namespace Name.S1.S2 { … }` with a fixed body: exported interface `A`, type `T`, constant `c`,
  /// function `f`, class `K`, a hidden interface and a statement
  Namespace { segments: Vec<String> },
}

#[derive(Clone, Debug, PartialEq)]
pub struct Decl {
  pub name: String,
  pub exported: bool,
  pub is_default: bool,
  pub kind: DeclKind,
  /// names this declaration's public signature refers to (local declarations or import bindings)
  pub sig_refs: Vec<String>,
  /// names only its implementation refers to
  pub body_refs: Vec<String>,
  /// rendered type parameter list (`<T extends A = B>`), for classes, interfaces, type aliases and functions
  pub generics: String,
}

#[derive(Clone, Debug, PartialEq)]
pub enum Item {
  Decl(Decl),
  /// `import { name as local } from "./m.ts"` / `import type …`
  Import { from: String, names: Vec<(String, String)>, type_only: bool },
  ImportNs { from: String, local: String },
  ImportDefault { from: String, local: String },
  /// `export { name as exported } from "./m.ts"`
  ExportFrom { from: String, names: Vec<(String, String)> },
  ExportStar { from: String },
  /// `export { local as exported }`
  ExportLocal { names: Vec<(String, String)> },
  SideEffect(String),
}

#[derive(Clone, Debug)]
pub struct AFile {
  pub path: String,
  pub items: Vec<Item>,
}

#[derive(Clone, Debug)]
pub struct APkg {
  pub name: String,
  pub version: String,
  pub exports: Vec<(String, String)>,
  pub files: Vec<AFile>,
}

// ---------------------------------------------------------------------------------------------
// rendering

fn r_lit(k: &LitK) -> String {
  match k {
    LitK::Num(t) => t.clone(),
    LitK::Str(t) => t.clone(),
    LitK::Bool(b) => b.to_string(),
    LitK::Null => "null".into(),
    LitK::Regex => "/re/".into(),
  }
}

pub fn r_expr(e: &Expr) -> String {
  match e {
    Expr::Lit(k) => r_lit(k),
    Expr::Tpl => "`tpl`".into(),
    Expr::AsT { ty, .. } => format!("(compute() as {})", ty),
    Expr::Opaque(t) => t.clone(),
    Expr::Leave(t) => t.clone(),
  }
}

fn r_param(p: &Param) -> String {
  format!(
    "{}{}{}{}{}",
    if p.rest { "..." } else { "" },
    p.name,
    if p.opt { "?" } else { "" },
    p.ty.as_ref().map(|t| format!(": {}", t)).unwrap_or_default(),
    p.dflt.as_ref().map(|d| format!(" = {}", r_expr(d))).unwrap_or_default()
  )
}

fn r_body(f: &Fn, body_refs: &[String]) -> String {
  let uses: String = body_refs.iter().map(|r| format!(" void {};", r)).collect();
  // several shapes per class of body (which one depends on the signature only, so that rendering is a function of the declaration)
  let v = (r_sig(f).bytes().fold(0u32, |h, b| h.wrapping_mul(31).wrapping_add(b as u32)) % 3) as usize;
  let ret = match (f.analysis, v) {
    (RetAnalysis::None, 0) => "",
    (RetAnalysis::None, 1) => " for (;;) { break; }",
    (RetAnalysis::None, _) => " switch (1) { case 1: break; }",
    (RetAnalysis::Void, 0) => " if (Math.random() > 2) { return; }",
    (RetAnalysis::Void, 1) => " try { return; } finally { }",
    (RetAnalysis::Void, _) => " while (Math.random() > 2) { return; } return;",
    (RetAnalysis::Single, 0) => " return compute();",
    // a bare return before the one that carries a value: still one value-carrying return
    (RetAnalysis::Single, 1) => " if (Math.random() > 2) return; return compute();",
    (RetAnalysis::Single, _) => " switch (1) { case 1: return; } try { return compute(); } catch { }",
    (RetAnalysis::Multiple, 0) => " if (Math.random() > 2) { return 1; } return compute();",
    (RetAnalysis::Multiple, 1) => " switch (1) { case 1: return 1; default: return 2; }",
    (RetAnalysis::Multiple, _) => " if (Math.random() > 2) return; while (Math.random() > 2) { return 1; } return compute();",
  }
  .to_string();
  format!("{{ console.log(\"body\");{}{}{} }}", uses, if f.is_gen { " yield 1;" } else { "" }, ret)
}

fn r_sig(f: &Fn) -> String {
  format!("({}){}", f.params.iter().map(r_param).collect::<Vec<_>>().join(", "), f.ret.as_ref().map(|t| format!(": {}", t)).unwrap_or_default())
}

fn r_init(i: &Init, body_refs: &[String]) -> String {
  match i {
    Init::Expr(e) => r_expr(e),
    Init::Arrow { f, expr_body } => format!(
      "{}{} => {}",
      if f.is_async { "async " } else { "" },
      r_sig(f),
      match expr_body {
        Some(e) => {
          let t = r_expr(e);
          if t.starts_with('{') { format!("({})", t) } else { t }
        }
        None => r_body(f, body_refs),
      }
    ),
    Init::FnExpr(f) => format!("{}function{} {} {}", if f.is_async { "async " } else { "" }, if f.is_gen { "*" } else { "" }, r_sig(f), r_body(f, body_refs)),
  }
}

fn r_access(a: Access) -> &'static str {
  match a {
    Access::Pub => "",
    Access::Priv => "private ",
    Access::Prot => "protected ",
  }
}

pub fn render_decl(d: &Decl) -> String {
  let ex = if d.is_default { "export default " } else if d.exported { "export " } else { "" };
  match &d.kind {
    DeclKind::Function { f, overloads } => {
      let mut s = String::new();
      for k in 0..*overloads {
        s.push_str(&format!("{}function {}(o{}: number): string;\n", ex, d.name, k));
      }
      s.push_str(&format!(
        "{}{}function{} {}{}{} {}\n",
        ex,
        if f.is_async { "async " } else { "" },
        if f.is_gen { "*" } else { "" },
        d.name,
        d.generics,
        r_sig(f),
        r_body(f, &d.body_refs)
      ));
      s
    }
    DeclKind::Var { is_const, ty, init } => format!(
      "{}{} {}{}{};\n",
      ex,
      if *is_const { "const" } else { "let" },
      d.name,
      ty.as_ref().map(|t| format!(": {}", t)).unwrap_or_default(),
      init.as_ref().map(|i| format!(" = {}", r_init(i, &d.body_refs))).unwrap_or_default()
    ),
    DeclKind::Class { extends, implements, members } => {
      let mut s = format!(
        "{}class {}{}{}{} {{\n",
        ex,
        d.name,
        d.generics,
        extends.as_ref().map(|e| format!(" extends {}", e)).unwrap_or_default(),
        if implements.is_empty() { String::new() } else { format!(" implements {}", implements.join(", ")) }
      );
      for m in members {
        match m {
          Member::Prop { name, access, is_static, readonly, ty, init } => s.push_str(&format!(
            "  {}{}{}{}{}{};\n",
            r_access(*access),
            if *is_static { "static " } else { "" },
            if *readonly { "readonly " } else { "" },
            name,
            ty.as_ref().map(|t| format!(": {}", t)).unwrap_or_else(|| if init.is_none() { "!".into() } else { String::new() }),
            init.as_ref().map(|i| format!(" = {}", r_init(i, &[]))).unwrap_or_default()
          )),
          Member::Method { name, access, is_static, kind, f } => s.push_str(&format!(
            "  {}{}{}{}{}{}{} {}\n",
            r_access(*access),
            if *is_static { "static " } else { "" },
            if f.is_async { "async " } else { "" },
            match kind { FnKind::Getter => "get ", FnKind::Setter => "set ", FnKind::DeclLike => "" },
            if f.is_gen { "*" } else { "" },
            name,
            r_sig(f),
            r_body(f, &d.body_refs)
          )),
          Member::Ctor { access, params, calls_super, overloads } => s.push_str(&format!(
            "{}  {}constructor({}) {{ {}console.log(\"ctor\"); }}\n",
            (0..*overloads).map(|k| format!("  {}constructor({});\n", r_access(*access), ctor_overload_params(k).iter().map(r_param).collect::<Vec<_>>().join(", "))).collect::<String>(),
            r_access(*access),
            params
              .iter()
              .map(|(p, prop)| format!(
                "{}{}",
                match prop { Some((a, ro)) => format!("{}{}", if *a == Access::Pub { "public " } else { r_access(*a) }, if *ro { "readonly " } else { "" }), None => String::new() },
                r_param(p)
              ))
              .collect::<Vec<_>>()
              .join(", "),
            if *calls_super { "super(compute()); " } else { "" }
          )),
          Member::EsPrivate(n) => s.push_str(&format!("  #{} = compute();\n", n)),
          Member::StaticBlock => s.push_str("  static { console.log(\"static\"); }\n"),
          Member::Accessor { name, access, is_static, ty, init } => s.push_str(&format!(
            "  {}{}accessor {}{}{};\n",
            r_access(*access),
            if *is_static { "static " } else { "" },
            name,
            ty.as_ref().map(|t| format!(": {}", t)).unwrap_or_default(),
            init.as_ref().map(|i| format!(" = {}", r_expr(i))).unwrap_or_default()
          )),
        }
      }
      s.push_str("}\n");
      s
    }
    DeclKind::Interface { extends, props } => format!(
      "{}interface {}{}{} {{ {} }}\n",
      ex,
      d.name,
      d.generics,
      if extends.is_empty() { String::new() } else { format!(" extends {}", extends.join(", ")) },
      props.iter().map(|(n, t)| format!("{}: {};", n, t)).collect::<Vec<_>>().join(" ")
    ),
    DeclKind::TypeAlias { ty } => format!("{}type {}{} = {};\n", ex, d.name, d.generics, ty),
    DeclKind::Enum => format!("{}enum {} {{ A, B = 5 }}\n", ex, d.name),
    DeclKind::Namespace { segments } => format!(
      "{}namespace {}{} {{\n  export interface A {{ a: string }}\n  export type T = number | string;\n  export const c: number = compute();\n  export function f(a: number): string {{ console.log(\"body\"); return compute(); }}\n  export class K {{ p: number = compute(); m(a: string): void {{ console.log(\"body\"); }} }}\n  interface Hidden {{ h: string }}\n  console.log(\"inside a namespace\");\n}}\n",
      ex,
      d.name,
      segments.iter().map(|x| format!(".{}", x)).collect::<String>()
    ),
  }
}

pub fn render_file(f: &AFile) -> String {
  let mut s = String::from("declare function compute(): any;\ndeclare const cond: boolean;\n");
  let mut s = { s.clear(); s };
  for it in &f.items {
    match it {
      Item::Decl(d) => s.push_str(&render_decl(d)),
      Item::Import { from, names, type_only } => s.push_str(&format!(
        "import {}{{ {} }} from \"{}\";\n",
        if *type_only { "type " } else { "" },
        names.iter().map(|(n, l)| if n == l { n.clone() } else { format!("{} as {}", n, l) }).collect::<Vec<_>>().join(", "),
        from
      )),
      Item::ImportNs { from, local } => s.push_str(&format!("import * as {} from \"{}\";\n", local, from)),
      Item::ImportDefault { from, local } => s.push_str(&format!("import {} from \"{}\";\n", local, from)),
      Item::ExportFrom { from, names } => s.push_str(&format!(
        "export {{ {} }} from \"{}\";\n",
        names.iter().map(|(n, e)| if n == e { n.clone() } else { format!("{} as {}", n, e) }).collect::<Vec<_>>().join(", "),
        from
      )),
      Item::ExportStar { from } => s.push_str(&format!("export * from \"{}\";\n", from)),
      Item::ExportLocal { names } => s.push_str(&format!(
        "export {{ {} }};\n",
        names.iter().map(|(l, e)| if l == e { l.clone() } else { format!("{} as {}", l, e) }).collect::<Vec<_>>().join(", ")
      )),
      Item::SideEffect(t) => s.push_str(&format!("{}\n", t)),
    }
  }
  // helpers every body refers to; never part of the public API
  if f.path.ends_with(".js") || f.path.ends_with(".mjs") {
    s.push_str("function compute() { return 1; }\n");
  } else {
    s.push_str("function compute(): any { return 1; }\n");
  }
  s
}

// ---------------------------------------------------------------------------------------------
// canonical description of emitted declarations (what the model prints)

pub fn strip_ws(s: &str) -> String {
  s.chars().filter(|c| !c.is_whitespace()).collect()
}

// ---------------------------------------------------------------------------------------------
// s-expressions for the model

fn q(s: &str) -> String {
  // atoms cannot hold whitespace or parentheses: encode as code points
  format!("(s {})", s.chars().map(|c| (c as u32).to_string()).collect::<Vec<_>>().join(" "))
}

fn opt_s(o: &Option<String>) -> String {
  o.as_ref().map(|t| q(&strip_ws(t))).unwrap_or("-".into())
}

pub fn expr_sexp(e: &Expr) -> String {
  match e {
    Expr::Lit(LitK::Num(t)) => format!("(num {})", q(t)),
    Expr::Lit(LitK::Str(t)) => format!("(str {})", q(&strip_ws(t))),
    Expr::Lit(LitK::Bool(b)) => format!("(bool {})", *b as u8),
    Expr::Lit(LitK::Null) => "null".into(),
    Expr::Lit(LitK::Regex) => "regex".into(),
    Expr::Tpl => "(tpl 1)".into(),
    Expr::AsT { ty, simple } => format!("(as {} {})", q(&strip_ws(ty)), *simple as u8),
    Expr::Opaque(_) => "opaque".into(),
    Expr::Leave(t) => format!("(leave {})", q(&strip_ws(t))),
  }
}

/// the parameters of the k-th overload signature of a constructor
pub fn ctor_overload_params(k: usize) -> Vec<Param> {
  (0..=k).map(|i| Param { name: format!("o{}", i), opt: false, rest: false, ty: Some(if i % 2 == 0 { "number".into() } else { "string".into() }), dflt: None }).collect()
}

pub fn param_sexp(p: &Param) -> String {
  format!("(p {} {} {} {} {})", q(&p.name), p.opt as u8, p.rest as u8, opt_s(&p.ty), p.dflt.as_ref().map(expr_sexp).unwrap_or("-".into()))
}

pub fn fn_sexp(f: &Fn) -> String {
  format!(
    "(fn ({}) {} {} {} 1 {})",
    f.params.iter().map(param_sexp).collect::<Vec<_>>().join(" "),
    opt_s(&f.ret),
    f.is_async as u8,
    f.is_gen as u8,
    match f.analysis { RetAnalysis::None => "none", RetAnalysis::Void => "void", RetAnalysis::Single => "single", RetAnalysis::Multiple => "multiple" }
  )
}

pub fn init_sexp(i: &Init) -> String {
  match i {
    Init::Expr(e) => format!("(e {})", expr_sexp(e)),
    Init::Arrow { f, expr_body } => format!("(arrow {} {})", fn_sexp(f), expr_body.as_ref().map(expr_sexp).unwrap_or("-".into())),
    Init::FnExpr(f) => format!("(fnexpr {})", fn_sexp(f)),
  }
}

fn access_s(a: Access) -> &'static str {
  match a {
    Access::Pub => "pub",
    Access::Priv => "priv",
    Access::Prot => "prot",
  }
}

pub fn member_sexp(m: &Member) -> String {
  match m {
    Member::Prop { name, access, is_static, readonly, ty, init } => format!(
      "(prop {} {} {} {} {} {})",
      q(name),
      access_s(*access),
      *is_static as u8,
      *readonly as u8,
      opt_s(ty),
      init.as_ref().map(init_sexp).unwrap_or("-".into())
    ),
    Member::Method { name, access, is_static, kind, f } => format!(
      "(method {} {} {} {} {})",
      q(name),
      access_s(*access),
      *is_static as u8,
      match kind { FnKind::DeclLike => "decl", FnKind::Getter => "getter", FnKind::Setter => "setter" },
      fn_sexp(f)
    ),
    Member::Ctor { access, params, calls_super, overloads } => format!(
      "{}(ctor {} ({}) 1 {} {})",
      (0..*overloads)
        .map(|k| format!("(ctor {} ({}) 0 0 0) ", access_s(*access), ctor_overload_params(k).iter().map(|p| format!("({} -)", param_sexp(p))).collect::<Vec<_>>().join(" ")))
        .collect::<String>(),
      access_s(*access),
      params
        .iter()
        .map(|(p, prop)| format!("({} {})", param_sexp(p), match prop { Some((a, ro)) => format!("({} {})", access_s(*a), *ro as u8), None => "-".into() }))
        .collect::<Vec<_>>()
        .join(" "),
      *calls_super as u8,
      (*overloads > 0) as u8
    ),
    Member::EsPrivate(_) => "esprivate".into(),
    Member::StaticBlock => "staticblock".into(),
    Member::Accessor { name, access, is_static, ty, init } => format!(
      "(accessor {} {} {} {} {})",
      q(name),
      access_s(*access),
      *is_static as u8,
      opt_s(ty),
      init.as_ref().map(expr_sexp).unwrap_or("-".into())
    ),
  }
}

/// the request for one declaration: what is left of it
pub fn erase_request(d: &Decl) -> Option<String> {
  Some(match &d.kind {
    DeclKind::Function { f, overloads } => format!("(fc-fn {} {} {})", q(&d.name), fn_sexp(f), (*overloads > 0) as u8),
    DeclKind::Var { is_const, ty, init } => format!("(fc-var {} {} {} {})", q(&d.name), *is_const as u8, opt_s(ty), init.as_ref().map(init_sexp).unwrap_or("-".into())),
    DeclKind::Class { members, .. } => format!("(fc-class {} ({}))", q(&d.name), members.iter().map(member_sexp).collect::<Vec<_>>().join(" ")),
    _ => return None,
  })
}

// ---------------------------------------------------------------------------------------------
// generator

const TYPES: &[&str] = &["number", "string", "boolean", "string[]", "Array<number>", "number | string", "unknown"];

fn pick<'a, T>(rng: &mut Rng, l: &'a [T]) -> &'a T {
  &l[rng.below(l.len())]
}

pub struct GenCtx {
  /// names usable in types of the current file: (name, is it a type-capable declaration)
  pub type_names: Vec<String>,
  pub value_names: Vec<String>,
}

fn gen_ty(rng: &mut Rng, cx: &GenCtx, refs: &mut Vec<String>) -> String {
  if !cx.type_names.is_empty() && rng.chance(1, 2) {
    let n = pick(rng, &cx.type_names).clone();
    if !refs.contains(&n) {
      refs.push(n.clone());
    }
    match rng.below(4) {
      0 => format!("{}[]", n),
      1 => format!("{} | undefined", n),
      2 => format!("Array<{}>", n),
      _ => n,
    }
  } else {
    pick(rng, TYPES).to_string()
  }
}

fn gen_expr(rng: &mut Rng, cx: &GenCtx, refs: &mut Vec<String>, allow_bad: bool) -> Expr {
  match rng.below(if allow_bad { 12 } else { 9 }) {
    0 => Expr::Lit(LitK::Num(["1", "5", "42", "0.5"][rng.below(4)].into())),
    1 => Expr::Lit(LitK::Str(["\"x\"", "\"hello\""][rng.below(2)].into())),
    2 => Expr::Lit(LitK::Bool(rng.chance(1, 2))),
    3 => Expr::Tpl,
    4 => {
      let mut r = vec![];
      let ty = gen_ty(rng, cx, &mut r);
      refs.extend(r);
      Expr::AsT { ty, simple: true }
    }
    5 | 6 if !cx.value_names.is_empty() => {
      let n = pick(rng, &cx.value_names).clone();
      if !refs.contains(&n) {
        refs.push(n.clone());
      }
      Expr::Leave(match rng.below(5) {
        0 => n,
        1 => format!("{} + 1", n),
        2 => format!("[1, {}]", n),
        3 => format!("{{ a: {} }}", n),
        _ => format!("-{}", n),
      })
    }
    7 => Expr::Lit(LitK::Null),
    8 => Expr::Leave("Math.PI".into()),
    9 => Expr::Opaque(
      [
        "compute()",
        "[compute(), 1]",
        "[1, compute()]",
        "[compute(), Math.PI]",
        "{ a: compute(), b: 1 }",
        "{ a: 1, b: compute() }",
        "[[compute()], 2]",
        "(compute(), 1)",
        // templates below the top level: every substitution has to be leavable, wherever it stands
        "[`id-${compute()}-${1}`]",
        "[`a${1}b${compute()}c${2}`]",
        "{ a: `x${compute()}y${Math.PI}z` }",
        "[`${compute()}${y}`, 1]",
      ][rng.below(12)]
        .into(),
    ),
    10 => Expr::Opaque("new Map()".into()),
    _ => Expr::AsT { ty: "typeof Math".into(), simple: false },
  }
}

fn gen_fn(rng: &mut Rng, cx: &GenCtx, refs: &mut Vec<String>, p_bad: usize) -> Fn {
  let n = rng.below(4);
  let mut params = vec![];
  let mut seen_rest = false;
  for i in 0..n {
    let last = i + 1 == n;
    let shape = rng.below(10);
    let bad = rng.chance(p_bad, 100);
    let name = format!("a{}", i);
    let p = match shape {
      0 | 1 | 2 | 3 => Param { name, opt: false, rest: false, ty: if bad { None } else { Some(gen_ty(rng, cx, refs)) }, dflt: None },
      4 => Param { name, opt: true, rest: false, ty: Some(gen_ty(rng, cx, refs)), dflt: None },
      5 | 6 => Param { name, opt: false, rest: false, ty: None, dflt: Some(gen_expr(rng, cx, refs, bad)) },
      7 => Param { name, opt: false, rest: false, ty: Some(gen_ty(rng, cx, refs)), dflt: Some(gen_expr(rng, cx, refs, false)) },
      _ if last && !seen_rest => {
        seen_rest = true;
        Param { name, opt: false, rest: true, ty: if bad { None } else { Some(format!("{}[]", pick(rng, &["number", "string"]))) }, dflt: None }
      }
      _ => Param { name, opt: false, rest: false, ty: Some(gen_ty(rng, cx, refs)), dflt: None },
    };
    params.push(p);
  }
  // a required parameter may not follow `x?` in TypeScript: turn earlier `?` into defaults of undefined type
  for i in 0..params.len() {
    if params[i].opt && params[i + 1..].iter().any(|q| !q.opt && q.dflt.is_none() && !q.rest) {
      params[i].opt = false;
    }
  }
  let is_async = rng.chance(1, 6);
  let is_gen = rng.chance(1, 25);
  let analysis = *pick(rng, &[RetAnalysis::None, RetAnalysis::None, RetAnalysis::Void, RetAnalysis::Single, RetAnalysis::Multiple]);
  let ret = if rng.chance(p_bad, 100) && !matches!(analysis, RetAnalysis::None | RetAnalysis::Void) {
    None
  } else if matches!(analysis, RetAnalysis::None | RetAnalysis::Void) && rng.chance(1, 2) {
    if rng.chance(1, 2) { None } else { Some(if is_async { "Promise<void>".to_string() } else { "void".to_string() }) }
  } else {
    let t = gen_ty(rng, cx, refs);
    Some(if is_async { format!("Promise<{}>", t) } else if is_gen { "Generator<unknown, any, any>".to_string() } else { t })
  };
  let ret = if is_gen && ret.is_some() { Some("Generator<unknown, any, any>".to_string()) } else { ret };
  Fn { params, ret, is_async: is_async && !is_gen, is_gen, analysis }
}

fn gen_init(rng: &mut Rng, cx: &GenCtx, refs: &mut Vec<String>, p_bad: usize) -> Init {
  match rng.below(8) {
    0 | 1 => {
      let mut f = gen_fn(rng, cx, refs, p_bad);
      f.is_gen = false;
      if let Some(r) = &f.ret {
        if r.starts_with("Generator") {
          f.ret = Some("number".into());
        }
      }
      let bad = rng.chance(p_bad, 100);
      let expr_body = if rng.chance(1, 2) { Some(gen_expr(rng, cx, refs, bad)) } else { None };
      Init::Arrow { f, expr_body }
    }
    2 => Init::FnExpr(gen_fn(rng, cx, refs, p_bad)),
    _ => {
      let bad = rng.chance(p_bad, 100);
      Init::Expr(gen_expr(rng, cx, refs, bad))
    }
  }
}

pub fn gen_decl(rng: &mut Rng, cx: &GenCtx, name: String, exported: bool, p_bad: usize) -> Decl {
  let mut refs = vec![];
  let mut body_refs = vec![];
  let kind = match rng.below(12) {
    0 | 1 | 2 => DeclKind::Function { f: gen_fn(rng, cx, &mut refs, p_bad), overloads: if rng.chance(1, 8) { 2 } else { 0 } },
    3 | 4 | 5 => {
      let is_const = rng.chance(3, 4);
      let ty = if rng.chance(1, 3) { Some(gen_ty(rng, cx, &mut refs)) } else { None };
      DeclKind::Var { is_const, ty, init: Some(gen_init(rng, cx, &mut refs, p_bad)) }
    }
    6 | 7 | 8 => {
      let mut members = vec![];
      let n = rng.below(6);
      let mut has_ctor = false;
      let mut private_names: Vec<String> = vec![];
      for j in 0..n {
        let mname = format!("m{}", j);
        match rng.below(10) {
          0 | 1 | 2 => {
            let access = *pick(rng, &[Access::Pub, Access::Pub, Access::Priv, Access::Prot]);
            let mut r = vec![];
            let ty = if rng.chance(1, 2) { Some(gen_ty(rng, cx, &mut r)) } else { None };
            let init = if ty.is_none() || rng.chance(1, 2) { Some(gen_init(rng, cx, &mut r, p_bad)) } else { None };
            if access != Access::Priv {
              refs.extend(r);
            } else {
              body_refs.extend(r);
            }
            members.push(Member::Prop { name: mname, access, is_static: rng.chance(1, 5), readonly: rng.chance(1, 4), ty, init });
          }
          3 | 4 | 5 => {
            let access = *pick(rng, &[Access::Pub, Access::Pub, Access::Priv, Access::Prot]);
            let mut r = vec![];
            let mut f = gen_fn(rng, cx, &mut r, p_bad);
            let kind = *pick(rng, &[FnKind::DeclLike, FnKind::DeclLike, FnKind::Getter, FnKind::Setter]);
            match kind {
              FnKind::Getter => {
                f.params.clear();
                f.is_async = false;
                f.is_gen = false;
                f.analysis = RetAnalysis::Single;
                if let Some(t) = &f.ret {
                  if t.starts_with("Promise") || t.starts_with("Generator") || t == "void" {
                    f.ret = Some("number".into());
                  }
                }
              }
              FnKind::Setter => {
                f.params = vec![Param { name: "v".into(), opt: false, rest: false, ty: if rng.chance(p_bad, 100) { None } else { Some(gen_ty(rng, cx, &mut r)) }, dflt: None }];
                f.ret = None;
                f.is_async = false;
                f.is_gen = false;
                f.analysis = RetAnalysis::None;
              }
              FnKind::DeclLike => {}
            }
            let name = if access == Access::Priv && !private_names.is_empty() && rng.chance(1, 3) { private_names[0].clone() } else { mname };
            if access == Access::Priv {
              private_names.push(name.clone());
              body_refs.extend(r);
            } else {
              refs.extend(r);
            }
            if access == Access::Priv && (kind != FnKind::DeclLike) {
              // keep private accessors out: two accessors of one name are one property
              continue;
            }
            members.push(Member::Method { name, access, is_static: rng.chance(1, 6), kind, f });
          }
          6 if !has_ctor => {
            has_ctor = true;
            let mut params = vec![];
            let k = rng.below(3);
            let access = if rng.chance(1, 8) { Access::Priv } else { Access::Pub };
            let overloads = if rng.chance(1, 4) { 1 + rng.below(2) } else { 0 };
            for i in 0..k {
              let mut r = vec![];
              let prop = if rng.chance(1, 2) { Some((*pick(rng, &[Access::Pub, Access::Priv, Access::Prot]), rng.chance(1, 3))) } else { None };
              let with_default = rng.chance(1, 3);
              let p = Param {
                name: format!("c{}", i),
                opt: false,
                rest: false,
                ty: if with_default && rng.chance(1, 2) || rng.chance(p_bad, 100) { None } else { Some(gen_ty(rng, cx, &mut r)) },
                dflt: if with_default { Some(gen_expr(rng, cx, &mut r, false)) } else { None },
              };
              let p = if p.ty.is_none() && p.dflt.is_none() && !rng.chance(p_bad, 100) { Param { ty: Some("number".into()), ..p } } else { p };
              let private_prop = matches!(prop, Some((Access::Priv, _)));
              // behind overload signatures only the parameter properties of the implementation are public
              if access == Access::Priv || private_prop || (overloads > 0 && prop.is_none()) {
                body_refs.extend(r);
              } else {
                refs.extend(r);
              }
              params.push((p, prop));
            }
            // a private constructor whose parameter property is not private and has no type of its
            // own: the property is part of the class's public shape whatever the constructor is
            if access == Access::Priv && rng.chance(1, 3) {
              let dflt = match rng.below(3) {
                0 => None,
                1 => Some(Expr::Opaque("compute()".into())),
                _ => Some(Expr::Opaque("new Map()".into())),
              };
              let prop = Some((*pick(rng, &[Access::Pub, Access::Prot]), rng.chance(1, 2)));
              params.push((Param { name: format!("c{}", k), opt: false, rest: false, ty: None, dflt }, prop));
            }
            members.push(Member::Ctor { access, params, calls_super: false, overloads });
          }
          7 => members.push(Member::EsPrivate(format!("h{}", j))),
          8 => members.push(Member::StaticBlock),
          9 => {
            let access = *pick(rng, &[Access::Pub, Access::Pub, Access::Priv, Access::Prot]);
            let mut r = vec![];
            let ty = if rng.chance(2, 3) && !rng.chance(p_bad, 100) { Some(gen_ty(rng, cx, &mut r)) } else { None };
            let init = if ty.is_none() || rng.chance(1, 3) { Some(gen_expr(rng, cx, &mut r, false)) } else { None };
            if access != Access::Priv {
              refs.extend(r);
            } else {
              body_refs.extend(r);
            }
            members.push(Member::Accessor { name: mname, access, is_static: rng.chance(1, 3), ty, init });
          }
          _ => {}
        }
      }
      let extends = if !cx.value_names.is_empty() && rng.chance(1, 4) {
        // only classes can be extended: callers pass class names first in value_names when they want this
        None
      } else {
        None
      };
      DeclKind::Class { extends, implements: vec![], members }
    }
    9 => {
      let n = 1 + rng.below(3);
      let mut props = vec![];
      for j in 0..n {
        props.push((format!("p{}", j), gen_ty(rng, cx, &mut refs)));
      }
      let extends = if !cx.type_names.is_empty() && rng.chance(1, 3) {
        let e = pick(rng, &cx.type_names).clone();
        // only interfaces / classes can be extended; the caller lists those first
        vec![e]
      } else {
        vec![]
      };
      let _ = extends;
      DeclKind::Interface { extends: vec![], props }
    }
    10 => DeclKind::TypeAlias { ty: gen_ty(rng, cx, &mut refs) },
    _ if rng.chance(1, 2) => DeclKind::Namespace { segments: (0..rng.below(4)).map(|k| format!("S{}", k)).collect() },
    _ => DeclKind::Enum,
  };
  refs.sort();
  refs.dedup();
  body_refs.sort();
  body_refs.dedup();
  Decl { name, exported, is_default: false, kind, sig_refs: refs, body_refs, generics: String::new() }
}

pub fn describe_decl(d: &Decl) -> serde_json::Value {
  json!({"name": d.name, "exported": d.exported, "sig_refs": d.sig_refs, "body_refs": d.body_refs, "source": render_decl(d)})
}
