//! Fast check: running it on registry packages given as plain file maps, with or without a cache.
use deno_ast::diagnostics::Diagnostic;
use deno_graph::BuildFastCheckTypeGraphOptions;
use deno_graph::BuildOptions;
use deno_graph::fast_check::FastCheckCache;
use deno_graph::fast_check::FastCheckCacheItem;
use deno_graph::fast_check::FastCheckCacheKey;
use deno_graph::GraphKind;
use deno_graph::Module;
use deno_graph::ModuleGraph;
use deno_graph::ModuleSpecifier;
use deno_graph::WorkspaceFastCheckOption;
use deno_graph::ast::CapturingModuleAnalyzer;
use deno_graph::source::MemoryLoader;
use deno_graph::source::Source;
use serde_json::json;
use std::cell::RefCell;
use std::collections::BTreeMap;

#[derive(Clone, Debug, Default)]
pub struct FcPackage {
  /// `@scope/name`
  pub name: String,
  pub version: String,
  /// export name -> path (`./mod.ts`)
  pub exports: Vec<(String, String)>,
  /// path (`/mod.ts`) -> source text
  pub files: Vec<(String, String)>,
}

#[derive(Clone, Debug, Default)]
pub struct FcWorld {
  pub pkgs: Vec<FcPackage>,
  /// text of file:///main.ts
  pub main: String,
}

impl FcWorld {
  pub fn describe(&self) -> serde_json::Value {
    json!({
      "main": self.main,
      "pkgs": self.pkgs.iter().map(|p| json!({
        "name": p.name, "version": p.version, "exports": p.exports,
        "files": p.files.iter().map(|(k, v)| json!({"path": k, "text": v})).collect::<Vec<_>>(),
      })).collect::<Vec<_>>(),
    })
  }
  pub fn url(p: &FcPackage, path: &str) -> String {
    format!("https://jsr.io/{}/{}{}", p.name, p.version, path)
  }
}

#[derive(Default)]
pub struct MemCache {
  pub inner: RefCell<BTreeMap<FastCheckCacheKey, FastCheckCacheItem>>,
  pub gets: RefCell<Vec<(u64, bool)>>,
  pub sets: RefCell<Vec<u64>>,
}

impl FastCheckCache for MemCache {
  fn hash_seed(&self) -> &'static str {
    "verif"
  }
  fn get(&self, key: FastCheckCacheKey) -> Option<FastCheckCacheItem> {
    let r = self.inner.borrow().get(&key).cloned();
    self.gets.borrow_mut().push((key.as_u64(), r.is_some()));
    r
  }
  fn set(&self, key: FastCheckCacheKey, value: FastCheckCacheItem) {
    self.sets.borrow_mut().push(key.as_u64());
    self.inner.borrow_mut().insert(key, value);
  }
}

#[derive(Clone, Debug, PartialEq, Eq)]
pub enum FcSlot {
  /// no fast check data
  None,
  Module { text: String, deps: Vec<String>, source_map: String, dts: Option<String> },
  Diagnostics(Vec<String>),
}

pub struct FcRun {
  pub graph: ModuleGraph,
  /// per module URL of the packages
  pub slots: BTreeMap<String, FcSlot>,
  pub graph_errors: Vec<String>,
}

pub fn sources(w: &FcWorld) -> Vec<(String, Source<String, String>)> {
  let mut out = vec![];
  let module = |url: String, text: String| (url.clone(), Source::Module { specifier: url, maybe_headers: None, content: text });
  out.push(module("file:///main.ts".into(), w.main.clone()));
  let mut names: BTreeMap<String, Vec<String>> = BTreeMap::new();
  for p in &w.pkgs {
    names.entry(p.name.clone()).or_default().push(p.version.clone());
    let exports: serde_json::Map<String, serde_json::Value> = p.exports.iter().map(|(k, v)| (k.clone(), json!(v))).collect();
    out.push(module(format!("https://jsr.io/{}/{}_meta.json", p.name, p.version), json!({"exports": exports, "manifest": {}}).to_string()));
    for (path, text) in &p.files {
      out.push(module(FcWorld::url(p, path), text.clone()));
    }
  }
  for (n, vs) in names {
    let versions: serde_json::Map<String, serde_json::Value> = vs.iter().map(|v| (v.clone(), json!({}))).collect();
    out.push(module(format!("https://jsr.io/{}/meta.json", n), json!({"versions": versions}).to_string()));
  }
  out
}

/// build the graph and run fast check; `dts` only without a cache
pub fn run_fast_check(w: &FcWorld, cache: Option<&MemCache>, dts: bool) -> FcRun {
  let analyzer = CapturingModuleAnalyzer::default();
  let loader = MemoryLoader::new(sources(w), vec![]);
  let mut graph = ModuleGraph::new(GraphKind::All);
  crate::build::block_on(graph.build(
    vec![ModuleSpecifier::parse("file:///main.ts").unwrap()],
    vec![],
    &loader,
    BuildOptions { module_analyzer: &analyzer, executor: &crate::world::InlineExecutor, ..Default::default() },
  ));
  let graph_errors: Vec<String> = graph.module_errors().map(|e| e.to_string()).collect();
  if graph_errors.is_empty() {
    graph.build_fast_check_type_graph(BuildFastCheckTypeGraphOptions {
      fast_check_cache: cache.map(|c| c as &dyn FastCheckCache),
      fast_check_dts: dts && cache.is_none(),
      jsr_url_provider: Default::default(),
      es_parser: Some(&analyzer),
      resolver: None,
      workspace_fast_check: WorkspaceFastCheckOption::Disabled,
    });
  }
  let mut slots = BTreeMap::new();
  for m in graph.modules() {
    if !m.specifier().as_str().starts_with("https://jsr.io/") {
      continue;
    }
    let Module::Js(js) = m else { continue };
    let slot = match &js.fast_check {
      None => FcSlot::None,
      Some(deno_graph::FastCheckTypeModuleSlot::Module(fm)) => FcSlot::Module {
        text: fm.source.to_string(),
        deps: fm.dependencies.iter().map(|(k, d)| format!("{}=>{}", k, d.get_code().or(d.get_type()).map(|s| s.to_string()).unwrap_or("?".into()))).collect(),
        source_map: fm.source_map.to_string(),
        dts: fm.dts.as_ref().map(|d| format!("dts-diagnostics:{}", d.diagnostics.len())),
      },
      Some(deno_graph::FastCheckTypeModuleSlot::Error(ds)) => FcSlot::Diagnostics(ds.iter().map(|d| format!("{}: {}", d.code(), d.specifier())).collect()),
    };
    slots.insert(m.specifier().to_string(), slot);
  }
  FcRun { graph, slots, graph_errors }
}

/// the first package of the world as a workspace member rooted at file:///ws/ (diagnostics are
/// collected over the whole package instead of stopping at the first one); slots keyed by file URL
pub fn run_fast_check_workspace(w: &FcWorld, cache: Option<&MemCache>) -> FcRun {
  let p = &w.pkgs[0];
  let base = "file:///ws/";
  let url = |path: &str| format!("{}{}", base, path.trim_start_matches('/'));
  let srcs: Vec<(String, Source<String, String>)> = p
    .files
    .iter()
    .map(|(path, text)| {
      let u = url(path);
      (u.clone(), Source::Module { specifier: u, maybe_headers: None, content: text.clone() })
    })
    .collect();
  let analyzer = CapturingModuleAnalyzer::default();
  let loader = MemoryLoader::new(srcs, vec![]);
  let mut graph = ModuleGraph::new(GraphKind::All);
  let roots: Vec<ModuleSpecifier> = p.exports.iter().map(|(_, path)| ModuleSpecifier::parse(&url(path.trim_start_matches('.'))).unwrap()).collect();
  crate::build::block_on(graph.build(
    roots,
    vec![],
    &loader,
    BuildOptions { module_analyzer: &analyzer, executor: &crate::world::InlineExecutor, ..Default::default() },
  ));
  let graph_errors: Vec<String> = graph.module_errors().map(|e| e.to_string()).collect();
  let members = vec![deno_graph::WorkspaceMember {
    base: ModuleSpecifier::parse(base).unwrap(),
    name: p.name.as_str().into(),
    version: Some(deno_semver::Version::parse_standard(&p.version).unwrap()),
    exports: p.exports.iter().cloned().collect(),
  }];
  if graph_errors.is_empty() {
    graph.build_fast_check_type_graph(BuildFastCheckTypeGraphOptions {
      fast_check_cache: cache.map(|c| c as &dyn FastCheckCache),
      fast_check_dts: false,
      jsr_url_provider: Default::default(),
      es_parser: Some(&analyzer),
      resolver: None,
      workspace_fast_check: WorkspaceFastCheckOption::Enabled(&members),
    });
  }
  let mut slots = BTreeMap::new();
  for m in graph.modules() {
    if !m.specifier().as_str().starts_with(base) {
      continue;
    }
    let Module::Js(js) = m else { continue };
    let slot = match &js.fast_check {
      None => FcSlot::None,
      Some(deno_graph::FastCheckTypeModuleSlot::Module(fm)) => FcSlot::Module {
        text: fm.source.to_string(),
        deps: fm.dependencies.iter().map(|(k, d)| format!("{}=>{}", k, d.get_code().or(d.get_type()).map(|s| s.to_string()).unwrap_or("?".into()))).collect(),
        source_map: fm.source_map.to_string(),
        dts: None,
      },
      Some(deno_graph::FastCheckTypeModuleSlot::Error(ds)) => FcSlot::Diagnostics(ds.iter().map(|d| format!("{}: {}", d.code(), d.specifier())).collect()),
    };
    slots.insert(m.specifier().to_string(), slot);
  }
  FcRun { graph, slots, graph_errors }
}

/// `dgh fc-run <file.json>`: {"main": "...", "pkgs": [{"name","version","exports":{..},"files":{..}}]} -> emitted modules
pub fn cli(path: &str) {
  let v: serde_json::Value = serde_json::from_str(&std::fs::read_to_string(path).unwrap()).unwrap();
  let mut w = FcWorld { main: v["main"].as_str().unwrap_or("").to_string(), pkgs: vec![] };
  for p in v["pkgs"].as_array().unwrap() {
    w.pkgs.push(FcPackage {
      name: p["name"].as_str().unwrap().into(),
      version: p["version"].as_str().unwrap().into(),
      exports: p["exports"].as_object().unwrap().iter().map(|(k, v)| (k.clone(), v.as_str().unwrap().to_string())).collect(),
      files: p["files"].as_object().unwrap().iter().map(|(k, v)| (k.clone(), v.as_str().unwrap().to_string())).collect(),
    });
  }
  if std::env::var("DGH_FC_CACHE").is_ok() {
    // cold and warm run with a shared cache, slot kinds only
    let cache = MemCache::default();
    for label in ["no cache", "cold", "warm"] {
      let r = if label == "no cache" { run_fast_check(&w, None, false) } else { run_fast_check(&w, Some(&cache), false) };
      println!("--- {}", label);
      for (u, s) in &r.slots {
        println!("{} {}", u, match s { FcSlot::None => "none".to_string(), FcSlot::Module { text, .. } => format!("module ({} bytes)", text.len()), FcSlot::Diagnostics(d) => format!("diagnostics {:?}", d) });
      }
      println!("cache gets {:?} sets {:?}", cache.gets.borrow(), cache.sets.borrow());
    }
    return;
  }
  let r = run_fast_check(&w, None, false);
  for e in &r.graph_errors {
    println!("GRAPH ERROR {}", e);
  }
  for (u, s) in &r.slots {
    println!("=== {}", u);
    match s {
      FcSlot::None => println!("(no fast check data)"),
      FcSlot::Module { text, deps, .. } => {
        println!("deps {:?}", deps);
        println!("{}", text);
      }
      FcSlot::Diagnostics(d) => println!("DIAGNOSTICS {:?}", d),
    }
  }
}
