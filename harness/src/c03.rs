//! C03 — builds terminate with every reachable specifier settled under any faults.
use crate::absworld::*;
use crate::build::*;
use crate::c01::MODEL_FUEL;
use crate::dump::Ctx;
use crate::report::*;
use crate::rng::Rng;
use crate::walkprops::Batch;
use crate::world::*;
use deno_graph::GraphKind;
use deno_graph::Module;
use deno_graph::ModuleGraph;
use deno_graph::ModuleSpecifier;
use serde_json::json;
use std::collections::BTreeMap;
use std::collections::BTreeSet;
use std::collections::HashSet;

fn spec(s: &str) -> ModuleSpecifier {
  ModuleSpecifier::parse(s).unwrap()
}

fn item(form: Form, text: &str) -> Item {
  Item { form, text: text.to_string() }
}

fn module(i: usize, items: Vec<Item>) -> Resp {
  Resp::Module { final_spec: i, headers: None, items, broken: Broken::No, raw: None }
}

/// base worlds (fault free): (world, indices that receive faults)
fn bases() -> Vec<(World, Vec<usize>)> {
  let mut out = vec![];
  // A: diamond with a dynamic edge, a json import and a types-only edge
  let specs = vec![
    spec("https://h.example/w/a.ts"),
    spec("https://h.example/w/b.ts"),
    spec("https://h.example/w/c.js"),
    spec("https://h.example/w/d.ts"),
    spec("https://h.example/w/e.json"),
    spec("https://h.example/w/t.d.ts"),
  ];
  let resp = vec![
    module(0, vec![item(Form::Namespace, "./b.ts"), item(Form::Dynamic, "./c.js"), item(Form::ImportType, "./t.d.ts")]),
    module(1, vec![item(Form::Namespace, "./d.ts"), item(Form::With("json".into()), "./e.json")]),
    module(2, vec![item(Form::Namespace, "./d.ts"), item(Form::SelfTypes, "./t.d.ts")]),
    module(3, vec![]),
    Resp::Module { final_spec: 4, headers: None, items: vec![], broken: Broken::No, raw: Some(b"{}".to_vec()) },
    module(5, vec![]),
  ];
  out.push((
    World { specs, resp, roots: vec![0], imports: vec![], kind: GraphKind::All, opts: Opts::default(), ..Default::default() },
    vec![1, 2, 3, 4],
  ));
  // B: local files, two roots sharing a dependency, asset import and source map
  let specs = vec![
    spec("file:///w/r1.ts"),
    spec("file:///w/r2.js"),
    spec("file:///w/shared.ts"),
    spec("file:///w/data.txt"),
    spec("file:///w/leaf.mjs"),
  ];
  let resp = vec![
    module(0, vec![item(Form::Namespace, "./shared.ts"), item(Form::With("text".into()), "./data.txt")]),
    module(1, vec![item(Form::ExportAll, "./shared.ts"), item(Form::SourceMap, "./data.txt"), item(Form::Dynamic, "./leaf.mjs")]),
    module(2, vec![item(Form::Dynamic, "./leaf.mjs")]),
    Resp::Module { final_spec: 3, headers: None, items: vec![], broken: Broken::No, raw: Some(b"text".to_vec()) },
    module(4, vec![]),
  ];
  out.push((
    World {
      specs,
      resp,
      roots: vec![0, 1],
      imports: vec![],
      kind: GraphKind::CodeOnly,
      opts: Opts { unstable_text: true, ..Default::default() },
      ..Default::default()
    },
    vec![2, 3, 4],
  ));
  out
}

/// fault kinds assignable to an entry (index `i`, `n` entries)
fn fault(k: usize, i: usize, n: usize, base: &Resp) -> Option<(Resp, &'static str)> {
  Some(match k {
    0 => (base.clone(), "ok"),
    1 => (Resp::Missing, "missing"),
    2 => (Resp::Error, "loader-error"),
    3 => (Resp::Redirect((i + 1) % n), "redirect-next"),
    4 => (Resp::Redirect(i), "redirect-self"),
    5 => (Resp::External(i), "external"),
    6 => match base {
      Resp::Module { final_spec, items, raw: None, .. } => (
        Resp::Module { final_spec: *final_spec, headers: None, items: items.clone(), broken: Broken::Parse, raw: None },
        "unparsable",
      ),
      _ => return None,
    },
    7 => match base {
      Resp::Module { final_spec, items, raw, .. } => (
        Resp::Module {
          final_spec: *final_spec,
          headers: Some(vec![("content-type".into(), "application/typescript; charset=bogus".into())]),
          items: items.clone(),
          broken: Broken::Decode,
          raw: raw.clone(),
        },
        "undecodable",
      ),
      _ => return None,
    },
    8 => match base {
      Resp::Module { items, raw, .. } => (
        Resp::Module { final_spec: (i + 1) % n, headers: None, items: items.clone(), broken: Broken::No, raw: raw.clone() },
        "final-specifier-elsewhere",
      ),
      _ => return None,
    },
    _ => return None,
  })
}
const FAULT_KINDS: usize = 9;

/// specifiers a slot's module depends on (transitively), over the fault-free graph
fn cone(g: &ModuleGraph, s: &ModuleSpecifier) -> HashSet<ModuleSpecifier> {
  let mut seen = HashSet::new();
  let mut stack = vec![s.clone()];
  while let Some(x) = stack.pop() {
    if !seen.insert(x.clone()) {
      continue;
    }
    if let Some(t) = g.redirects.get(&x) {
      stack.push(t.clone());
    }
    if let Ok(Some(m)) = g.try_get(&x) {
      for d in m.dependencies().values() {
        for r in [&d.maybe_code, &d.maybe_type] {
          if let Some(t) = r.maybe_specifier() {
            stack.push(t.clone());
          }
        }
      }
      if let Module::Js(js) = m {
        for td in [js.maybe_types_dependency.as_ref(), js.maybe_source_map_dependency.as_ref()].into_iter().flatten() {
          if let Some(t) = td.dependency.maybe_specifier() {
            stack.push(t.clone());
          }
        }
      }
    }
  }
  seen
}

fn check_build(
  report: &mut Report,
  batch: &mut Batch,
  w: &World,
  faulted: &[usize],
  reference: Option<&(ModuleGraph, BTreeMap<String, String>)>,
  label: &str,
) {
  let desc = json!({"world": w.describe(), "faults": label});
  batch.descs.push(desc.clone());
  let mut ctx = Ctx::default();
  let req = build_request(&mut ctx, w, &w.roots, MODEL_FUEL);
  let loader = ScriptedLoader::new(w);
  report.evaluations += 1;
  match try_build_world(w, &loader) {
    Err(BuildFailure::NonTermination) => {
      batch.push(req, "OUT-OF-FUEL".into(), false);
      report.fail("oracle", "build-does-not-terminate", format!("{}: loader call budget exhausted", label), desc);
    }
    Err(BuildFailure::Panic(m)) => {
      batch.push(req, "PANIC".into(), false);
      report.fail("oracle", "build-panicked", format!("{}: {}", label, m), desc);
    }
    Ok(g) => {
      let log = loader.log.borrow().clone();
      batch.push(req, show_graph(&mut ctx, &g, &log), false);
      // nothing unfinished; serialisation clean
      if g.verif_slots().iter().any(|(_, s, _)| s.is_none()) {
        report.fail("oracle", "pending-entry-left", format!("{}: a pending slot survived the build", label), desc.clone());
      }
      let js = serde_json::to_string(&g).unwrap();
      if js.contains("INTERNAL ERROR") {
        report.fail("oracle", "internal-error-in-serialisation", format!("{}: serialised graph reports an internal error", label), desc.clone());
      }
      // every fault the build ran into is an error entry for that specifier
      for c in &log {
        let s = ModuleSpecifier::parse(&c.specifier).unwrap();
        let Some(i) = w.spec_index(&s) else { continue };
        let expect = match &w.resp[i] {
          Resp::Missing => Some("missing"),
          Resp::Error => Some("loader"),
          Resp::Redirect(t) if *t == i => Some("tooManyRedirects"),
          _ => None,
        };
        if let Some(k) = expect {
          let got = match g.try_get(&s) {
            Err(e) => Some(err_kind(e)),
            _ => None,
          };
          let ok = matches!(&got, Some((kind, _)) if kind == k);
          // an inconsistent loader may answer another request with this very specifier as the final
          // one: that module then legitimately occupies the entry
          let overwritten_by_final = w.resp.iter().enumerate().any(|(j, r)| match r {
            Resp::Module { final_spec, .. } | Resp::External(final_spec) => *final_spec == i && j != i,
            _ => false,
          });
          // the entry may have been overwritten by the error of a later request (still an error entry)
          if !ok && !matches!(g.try_get(&s), Err(_)) && !overwritten_by_final {
            report.fail("oracle", "fault-without-error-entry", format!("{}: loader answered {} for {} but the entry is {:?}", label, k, s, got), desc.clone());
          }
          // carries its referrer unless it is a root
          if let Some((_, referrer)) = &got {
            let is_root = w.roots.iter().any(|r| w.specs[*r] == s);
            // (generated worlds reach faults through redirect chains that start at a root, which
            // have no referring range: checked on the hand-built worlds only)
            if referrer.is_none() && !is_root && k != "tooManyRedirects" && reference.is_some() {
              report.fail("oracle", "error-entry-without-referrer", format!("{}: error entry of {} has no referrer", label, s), desc.clone());
            }
          }
          report.count(&format!("fault-hit:{}", k));
        }
      }
      // locality: entries whose dependency cone avoids every faulted specifier are unchanged
      if let Some((g0, slots0)) = reference {
        let faulted_specs: HashSet<ModuleSpecifier> = faulted.iter().map(|i| w.specs[*i].clone()).collect();
        let mut ctx2 = Ctx::default();
        let now: BTreeMap<String, String> = slot_strings(&mut ctx2, &g);
        for (k, v0) in slots0 {
          let ks = ModuleSpecifier::parse(k).unwrap();
          let c = cone(g0, &ks);
          if c.iter().any(|x| faulted_specs.contains(x)) {
            continue;
          }
          if let Some(v) = now.get(k) {
            if v != v0 {
              report.fail("oracle", "fault-changed-unrelated-entry", format!("{}: entry {} does not depend on a faulted specifier but changed:\n  without faults: {}\n  with faults:    {}", label, k, v0, v), desc.clone());
            }
          }
        }
      }
      let nerr = g.module_errors().count();
      report.nontrivial.insert(format!("{}/e{}", label, nerr));
      report.count(&format!("error-entries:{}", nerr.min(6)));
    }
  }
}

/// slot descriptions keyed by specifier text, with names instead of interned ids
fn slot_strings(_ctx: &mut Ctx, g: &ModuleGraph) -> BTreeMap<String, String> {
  let mut out = BTreeMap::new();
  for (k, slot, _) in g.verif_slots() {
    let v = match slot {
      None => "pending".to_string(),
      Some(Err(e)) => format!("error: {}", e.to_string_with_range()),
      Some(Ok(m)) => serde_json::to_string(m).unwrap(),
    };
    out.insert(k.to_string(), v);
  }
  out
}

pub fn run(tier: &str, seed: u64) -> Report {
  let mut report = Report::new("C03");
  report.rule = "fault enumeration: two hand-built base worlds (remote diamond with dynamic/json/type edges; local two-root \
    world with asset import and source map), every assignment of {ok, missing, loader error, redirect to the next entry, \
    redirect to itself, external, unparsable, undecodable, module answered under another final specifier} to 3-4 entries \
    (exhaustive: 9^4 + 9^3 worlds), plus generated worlds with raised fault rates, self-redirects and inconsistent loaders; \
    each build: loader-call budget + watchdog (termination), no panic, no pending entry, no INTERNAL ERROR in the JSON, every \
    fault hit is an error entry of that specifier with a referrer, entries whose dependency cone avoids the faults equal the \
    fault-free build; model correspondence on every build; non-trivial = distinct (fault assignment, #error entries)"
    .into();
  quiet_panics();
  let mut batch = Batch::new();
  for (bi, (base, slots)) in bases().into_iter().enumerate() {
    // reference: fault-free build
    let loader0 = ScriptedLoader::new(&base);
    let g0 = build_world(&base, &loader0);
    let mut c0 = Ctx::default();
    let s0 = slot_strings(&mut c0, &g0);
    let reference = (g0, s0);
    let n = base.specs.len();
    let total = FAULT_KINDS.pow(slots.len() as u32);
    let stride = if tier == "thorough" { 1 } else { 1 };
    let mut code = 0usize;
    while code < total {
      let mut w = base.clone();
      let mut c = code;
      let mut labels = vec![];
      let mut faulted = vec![];
      let mut valid = true;
      for i in &slots {
        let k = c % FAULT_KINDS;
        c /= FAULT_KINDS;
        match fault(k, *i, n, &base.resp[*i]) {
          Some((r, name)) => {
            if k != 0 {
              faulted.push(*i);
              // a redirect / final specifier pointing at the next entry makes that entry part of the fault
              if k == 3 || k == 8 {
                faulted.push((*i + 1) % n);
              }
            }
            w.resp[*i] = r;
            labels.push(format!("{}={}", i, name));
          }
          None => valid = false,
        }
      }
      if valid {
        check_build(&mut report, &mut batch, &w, &faulted, Some(&reference), &format!("base{}[{}]", bi, labels.join(",")));
      }
      code += stride;
    }
    report.exhaustive.push(format!("base world {}: all {} assignments of 9 response kinds to {} entries", bi, total, slots.len()));
  }
  // generated worlds with many faults
  let mut rng = Rng::new(seed ^ 0xC03);
  let n = if tier == "thorough" { 20000 } else { 2500 };
  for wi in 0..n {
    let mut cfg = GenCfg::default();
    cfg.p_missing = 12;
    cfg.p_error = 10;
    cfg.p_redirect = 18;
    cfg.p_external = 6;
    cfg.p_broken = 12;
    cfg.allow_self_redirect = true;
    cfg.allow_inconsistent_finals = wi % 2 == 0;
    if wi % 5 == 1 {
      cfg.chain = Some(8 + wi % 6);
    }
    if wi % 7 == 2 {
      cfg.cycle = Some(1 + wi % 4);
    }
    let mut wr = rng.fork();
    let w = gen_world(&mut wr, &cfg);
    check_build(&mut report, &mut batch, &w, &[], None, &format!("gen{}", wi % 50));
  }
  registry_faults(&mut report, tier, &mut rng);
  // npm requirements the resolver rejects: an error entry each, imported statically, dynamically or both
  crate::c01::npm_resolver_part(&mut report, &mut rng, if tier == "thorough" { 3000 } else { 300 });
  batch.finish(&mut report, "C03");
  let _ = BTreeSet::<u8>::new();
  report
}

// ---------------------------------------------------------------------------------------------
// registry worlds: faults on package metadata, version manifests, probes and package files

fn reg_base() -> crate::registry::RegWorld {
  use crate::registry::*;
  let it = |form: Form, text: &str| Item { form, text: text.to_string() };
  let file = |path: &str, items: Vec<Item>| RegFile { path: path.into(), items, raw: None, manifest: ManifestEntry::Ok, fault: Fault::None, tampered_cache: false };
  let ver = |v: &str, exports: ExportsDesc, files: Vec<RegFile>, mg: MgKind, yanked: bool| RegVer {
    version: v.into(), yanked, created_day: None, exports, files, mg, fault: Fault::None, lockfile_checksum: None,
  };
  let ex2 = ExportsDesc::Obj(vec![(".".into(), Some("./mod.ts".into())), ("./sub".into(), Some("./sub.ts".into()))]);
  let a = RegPkg {
    name: "@s/a".into(),
    versions: vec![
      ver("1.0.0", ExportsDesc::Str("./mod.ts".into()), vec![file("/mod.ts", vec![])], MgKind::None, false),
      ver(
        "1.1.0",
        ex2.clone(),
        vec![
          file("/mod.ts", vec![it(Form::Namespace, "./sub.ts"), it(Form::Namespace, "jsr:@s/b@1"), it(Form::Dynamic, "npm:chalk@5")]),
          file("/sub.ts", vec![it(Form::Namespace, "./util.ts")]),
          file("/util.ts", vec![]),
        ],
        MgKind::V2,
        false,
      ),
      ver("2.0.0", ExportsDesc::Str("./mod.ts".into()), vec![file("/mod.ts", vec![])], MgKind::None, true),
    ],
    fault: Fault::None,
    stale: None,
  };
  let b = RegPkg {
    name: "@s/b".into(),
    versions: vec![ver(
      "1.0.0",
      ex2,
      vec![file("/mod.ts", vec![it(Form::ExportAll, "./sub.ts")]), file("/sub.ts", vec![it(Form::Namespace, "https://jsr.io/@s/a/1.0.0/mod.ts")])],
      MgKind::None,
      false,
    )],
    fault: Fault::None,
    stale: None,
  };
  RegWorld {
    pkgs: vec![a, b],
    user: vec![
      UserFile {
        url: "file:///main.ts".into(),
        items: vec![
          it(Form::Namespace, "jsr:@s/a@1"),
          it(Form::Namespace, "jsr:@s/b@1/sub"),
          it(Form::Dynamic, "jsr:@s/a@^1.1/sub"),
          it(Form::Namespace, "jsr:@s/a@2"),
          it(Form::Namespace, "./local.ts"),
          it(Form::Namespace, "https://x.test/m.ts"),
        ],
      },
      UserFile { url: "file:///local.ts".into(), items: vec![] },
      UserFile { url: "https://x.test/m.ts".into(), items: vec![] },
    ],
    roots: vec!["file:///main.ts".into()],
    kind: GraphKind::All,
    prefer_cached: false,
    passthrough: false,
    skip_dynamic_deps: false,
    cutoff_day: None,
    excl: vec![],
    excl_prefixes: vec![],
    cached: BTreeSet::new(),
    has_locker: false,
    lock_manifests: vec![],
    lock_remote: vec![],
    seeds: vec![],
  }
}

const REG_FAULTS: &[&str] = &["missing", "error", "malformed", "redirect", "external", "wrong-bytes", "tampered-cache", "final-in-registry", "moved-module"];

fn apply_reg_fault(loader: &mut crate::registry::RegLoader, url: &str, kind: &str) {
  use crate::registry::*;
  if kind == "final-in-registry" {
    // a loader that follows redirects itself: the URL is answered with a package file under that
    // file's own (final) specifier
    if url.starts_with(REG) {
      return;
    }
    let target = file_url("@s/a", "1.1.0", "/mod.ts");
    if let Some(t) = loader.served.get(&target).cloned() {
      loader.served.insert(url.to_string(), Served { final_spec: Some(target), ..t });
    }
    return;
  }
  if kind == "moved-module" {
    // a package file answered with its bytes under another final specifier (an implicit redirect):
    // whenever the build asks for it - as a module load or as the late load of the content of a module
    // known from the manifest - that is a redirect inside a package, an error entry
    if !url.starts_with(REG) || url.ends_with("meta.json") {
      return;
    }
    if let Some(s) = loader.served.get_mut(url) {
      s.final_spec = Some(format!("{}.moved.ts", url));
    }
    return;
  }
  let Some(s) = loader.served.get_mut(url) else { return };
  let is_meta = url.ends_with("meta.json");
  let a = match kind {
    "missing" => Ans::Missing,
    "error" => Ans::Error,
    "malformed" => Ans::Bytes(if is_meta { b"{ not json".to_vec() } else { b"export const = ;;; ((".to_vec() }),
    "redirect" => Ans::Redirect(format!("{}.moved", url)),
    "external" => Ans::External,
    "wrong-bytes" => match &s.fresh {
      Ans::Bytes(b) => {
        let mut b = b.clone();
        if is_meta {
          // still valid JSON, different bytes
          b.extend(b" ");
        } else {
          b.extend(b"\n// changed after publication\n");
        }
        Ans::Bytes(b)
      }
      other => other.clone(),
    },
    _ => s.fresh.clone(),
  };
  if kind == "tampered-cache" {
    // (putting an uncached version manifest into the cache would change what prefer-cached selects:
    // that is a different cache state, not a fault)
    if is_meta && s.cached.is_none() {
      return;
    }
    if let Ans::Bytes(b) = &s.fresh {
      let mut b = b.clone();
      b.extend(b" ");
      s.cached = Some(Ans::Bytes(b));
    }
  } else {
    s.fresh = a.clone();
    if s.cached.is_some() {
      s.cached = Some(a);
    }
  }
}

fn reg_check(report: &mut Report, w: &crate::registry::RegWorld, faults: &[(String, &str)], reference: Option<&(ModuleGraph, BTreeMap<String, String>)>, label: &str) {
  use crate::registry::*;
  let mut loader = RegLoader::new(w);
  // (a fault kind that does not apply to a URL is no fault)
  let faults: Vec<(String, &str)> = faults
    .iter()
    .filter(|(u, k)| !(*k == "final-in-registry" && u.starts_with(REG)))
    .filter(|(u, k)| !(*k == "moved-module" && (!u.starts_with(REG) || u.ends_with("meta.json"))))
    .cloned()
    .collect();
  let faults = &faults[..];
  for (u, k) in faults {
    apply_reg_fault(&mut loader, u, k);
  }
  let desc = json!({"registry_world": w.describe(), "faults": faults.iter().map(|(u, k)| format!("{}={}", u, k)).collect::<Vec<_>>(), "label": label});
  report.evaluations += 1;
  match build_reg(w, &loader) {
    Err(BuildFailure::NonTermination) => report.fail("oracle", "build-does-not-terminate", format!("{}: loader call budget exhausted", label), desc),
    Err(BuildFailure::Panic(m)) => report.fail("oracle", "build-panicked", format!("{}: {}", label, m), desc),
    Ok(b) => {
      let g = &b.graph;
      if g.verif_slots().iter().any(|(_, s, _)| s.is_none()) {
        report.fail("oracle", "pending-entry-left", format!("{}: a pending slot survived the build", label), desc.clone());
      }
      let js = serde_json::to_string(g).unwrap();
      if js.contains("INTERNAL ERROR") {
        report.fail("oracle", "internal-error-in-serialisation", format!("{}: serialised graph reports an internal error", label), desc.clone());
      }
      // a faulted package file that the build asked for is an error entry (an external marker is a module)
      for (u, k) in faults {
        if u.ends_with("meta.json") || *k == "external" || *k == "final-in-registry" {
          continue;
        }
        // different bytes are a fault only where a checksum is known (package files)
        if !u.starts_with(REG) && (*k == "wrong-bytes" || *k == "tampered-cache") {
          continue;
        }
        let asked = b.log.iter().any(|c| c.specifier == *u && c.cache_setting != "only");
        if !asked {
          continue;
        }
        // a tampered cache entry is only seen by loads that may use the cache (all module loads do)
        let s = ModuleSpecifier::parse(u).unwrap();
        // a registry URL imported as an ordinary https module (not through its package) may be moved
        // like any other remote module: then the move is recorded as a redirect
        if *k == "moved-module" && g.redirects.get(&s).map(|t| t.as_str() == format!("{}.moved.ts", u)).unwrap_or(false) {
          report.count("registry-fault-hit:moved-module:ordinary-remote-module-redirected");
          continue;
        }
        if !matches!(g.try_get(&s), Err(_)) {
          report.fail("oracle", "fault-without-error-entry", format!("{}: {} answered {} but its entry is not an error", label, u, k), desc.clone());
        }
        report.count(&format!("registry-fault-hit:{}", k));
      }
      // a faulted metadata file: every jsr: specifier that the fault-free build sent into that
      // package (version) is an error entry now
      if let Some((g0, slots0)) = reference {
        let mut affected: Vec<String> = vec![];
        for (u, k) in faults {
          let rest = u.strip_prefix(REG).unwrap_or("");
          if u.ends_with("/meta.json") {
            let name = rest.strip_suffix("/meta.json").unwrap();
            affected.push(format!("{}{}/", REG, name));
            if *k == "wrong-bytes" || *k == "tampered-cache" {
              continue; // still a valid meta.json
            }
            // (only specifiers some module of the faulted graph still imports)
            let mut imported: HashSet<ModuleSpecifier> = HashSet::new();
            for m in g.modules() {
              for d in m.dependencies().values() {
                for r in [&d.maybe_code, &d.maybe_type] {
                  if let Some(t) = r.maybe_specifier() {
                    imported.insert(t.clone());
                  }
                }
              }
            }
            for (s, t) in &g0.redirects {
              if s.scheme() == "jsr" && imported.contains(s) && t.as_str().starts_with(&format!("{}{}/", REG, name)) {
                if !matches!(g.try_get(s), Err(_)) && g.redirects.get(s).is_none() {
                  report.fail("oracle", "fault-without-error-entry", format!("{}: {} answered {} but {} is neither an error nor resolved", label, u, k, s), desc.clone());
                }
                if g.redirects.get(s).is_some() {
                  report.fail("oracle", "resolved-despite-metadata-fault", format!("{}: {} answered {} but {} was resolved", label, u, k, s), desc.clone());
                }
              }
            }
          } else if let Some(x) = rest.strip_suffix("_meta.json") {
            // @s/a/1.1.0
            affected.push(format!("{}{}/", REG, x));
          } else {
            affected.push(u.clone());
          }
        }
        // locality
        let mut ctx2 = Ctx::default();
        let now = slot_strings(&mut ctx2, g);
        let is_affected = |x: &ModuleSpecifier| {
          affected.iter().any(|a| x.as_str().starts_with(a.as_str()) || (x.scheme() == "jsr" && g0.redirects.get(x).map(|t| t.as_str().starts_with(a.as_str())).unwrap_or(false)))
        };
        // what the fault-free graph reaches from the roots without passing through an affected resource
        let mut still_reachable: HashSet<ModuleSpecifier> = HashSet::new();
        let mut stack: Vec<ModuleSpecifier> = g0.roots.iter().cloned().collect();
        while let Some(x) = stack.pop() {
          if is_affected(&x) || !still_reachable.insert(x.clone()) {
            continue;
          }
          if let Some(t) = g0.redirects.get(&x) {
            stack.push(t.clone());
          }
          if let Ok(Some(m)) = g0.try_get(&x) {
            for d in m.dependencies().values() {
              for r in [&d.maybe_code, &d.maybe_type] {
                if let Some(t) = r.maybe_specifier() {
                  stack.push(t.clone());
                }
              }
            }
            if let Module::Js(js) = m {
              if let Some(td) = &js.maybe_types_dependency {
                if let Some(t) = td.dependency.maybe_specifier() {
                  stack.push(t.clone());
                }
              }
            }
          }
        }
        for (k, v0) in slots0 {
          let ks = ModuleSpecifier::parse(k).unwrap();
          let c = cone(g0, &ks);
          if c.iter().any(|x| is_affected(x)) || !still_reachable.contains(&ks) {
            continue;
          }
          match now.get(k) {
            Some(v) if v != v0 => report.fail(
              "oracle",
              "fault-changed-unrelated-entry",
              format!("{}: entry {} does not depend on a faulted resource but changed:\n  without faults: {}\n  with faults:    {}", label, k, v0, v),
              desc.clone(),
            ),
            None => report.fail("oracle", "fault-removed-unrelated-entry", format!("{}: entry {} does not depend on a faulted resource but is gone", label, k), desc.clone()),
            _ => {}
          }
        }
      }
      let nerr = g.module_errors().count();
      report.nontrivial.insert(format!("registry/{}/e{}", faults.iter().map(|(u, k)| format!("{}:{}", if u.ends_with("/meta.json") { "pkg" } else if u.ends_with("_meta.json") { "ver" } else { "file" }, k)).collect::<Vec<_>>().join("+"), nerr.min(5)));
    }
  }
}

fn registry_faults(report: &mut Report, tier: &str, rng: &mut Rng) {
  use crate::registry::*;
  // variants of the base world: module information embedded or not, cache warm or cold, prefer-cached
  for variant in 0..6 {
    let mut w = reg_base();
    if variant % 2 == 1 {
      // warm cache: everything the registry serves is cached
      let all: Vec<String> = w.served().keys().filter(|u| u.starts_with(REG)).cloned().collect();
      w.cached = all.into_iter().collect();
    }
    if variant / 2 == 1 {
      w.prefer_cached = true;
    }
    if variant / 2 == 2 {
      w.has_locker = true;
      w.lock_manifests = vec![("@s/a@1.1.0".into(), true)];
    }
    let loader0 = RegLoader::new(&w);
    let Ok(b0) = build_reg(&w, &loader0) else {
      report.fail("oracle", "build-panicked", "fault-free registry base world failed".into(), w.describe());
      continue;
    };
    let mut c0 = Ctx::default();
    let s0 = slot_strings(&mut c0, &b0.graph);
    let mut urls: Vec<String> = b0.log.iter().map(|c| c.specifier.clone()).filter(|u| u.starts_with(REG) || u.starts_with("https://x.test/")).collect();
    // probes of version manifests that were not needed in the end are loads too
    for v in ["1.0.0", "1.1.0", "2.0.0"] {
      urls.push(ver_meta_url("@s/a", v));
    }
    urls.sort();
    urls.dedup();
    let reference = (b0.graph, s0);
    reg_check(report, &w, &[], Some(&reference), &format!("regbase{}", variant));
    for u in &urls {
      for k in REG_FAULTS {
        reg_check(report, &w, &[(u.clone(), *k)], Some(&reference), &format!("regbase{}", variant));
      }
    }
    // pairs of faults
    let pairs = if tier == "thorough" { usize::MAX } else { 600 };
    let mut n = 0;
    'outer: for (i, u1) in urls.iter().enumerate() {
      for u2 in urls.iter().skip(i + 1) {
        for k1 in REG_FAULTS {
          for k2 in REG_FAULTS {
            if tier != "thorough" && !rng.chance(1, 12) {
              continue;
            }
            reg_check(report, &w, &[(u1.clone(), *k1), (u2.clone(), *k2)], Some(&reference), &format!("regbase{}", variant));
            n += 1;
            if n >= pairs {
              break 'outer;
            }
          }
        }
      }
    }
    report.exhaustive.push(format!("registry base world variant {}: every single fault of 9 kinds on each of {} URLs the build (or a probe) asks for", variant, urls.len()));
  }
  // a further build on the finished graph (it has roots: no restart, a single refresh of the package
  // listing instead): a new root asks for a requirement that is, is not, or is only after the
  // refresh, satisfiable
  for (vi, (req, stale)) in [
    ("jsr:@s/a@9", false),
    ("jsr:@s/nope@1", false),
    ("jsr:@s/a@9", true),
    ("jsr:@s/a@~1.1", true),
    ("jsr:@s/a@^1", false),
    ("jsr:@s/b@7/sub", true),
  ]
  .into_iter()
  .enumerate()
  {
    let mut w = reg_base();
    if stale {
      // the cached listing of every package knows its first version only
      for p in w.pkgs.iter_mut() {
        p.stale = Some(vec![p.versions[0].version.clone()]);
      }
    }
    w.user.push(UserFile { url: "file:///second.ts".into(), items: vec![Item { form: Form::Namespace, text: req.to_string() }, Item { form: Form::Namespace, text: "jsr:@s/a@1".to_string() }] });
    let desc = json!({"registry_world": w.describe(), "second_build_root": "file:///second.ts", "label": format!("second-build{}", vi)});
    report.evaluations += 1;
    let loader = RegLoader::new(&w);
    let first = match build_reg(&w, &loader) {
      Ok(b) => b,
      Err(f) => {
        report.fail("oracle", "build-panicked", format!("second-build{}: first build {:?}", vi, f), desc);
        continue;
      }
    };
    match try_build_reg(&w, &loader, first.graph, vec!["file:///second.ts".to_string()]) {
      Err(BuildFailure::NonTermination) => report.fail("oracle", "build-does-not-terminate", format!("second-build{}: a further build asking for {} exhausted the loader call budget", vi, req), desc),
      Err(BuildFailure::Panic(m)) => report.fail("oracle", "build-panicked", format!("second-build{}: {}", vi, m), desc),
      Ok(b) => {
        if b.graph.verif_slots().iter().any(|(_, s, _)| s.is_none()) {
          report.fail("oracle", "pending-entry-left", format!("second-build{}: a pending slot survived the build", vi), desc.clone());
        }
        let s = ModuleSpecifier::parse(req).unwrap();
        let settled = matches!(b.graph.try_get(&s), Err(_)) || b.graph.redirects.contains_key(&s);
        if !settled {
          report.fail("oracle", "fault-without-error-entry", format!("second-build{}: {} is neither an error entry nor resolved", vi, req), desc.clone());
        }
        report.count(&format!("second-build:{}", if b.graph.redirects.contains_key(&s) { "resolved" } else { "error-entry" }));
      }
    }
  }
  // generated registry worlds with faults
  let n = if tier == "thorough" { 6000 } else { 800 };
  for i in 0..n {
    let mut wr = rng.fork();
    let cfg = RegCfg { faults: true, ..Default::default() };
    let mut w = gen_reg_world(&mut wr, &cfg);
    if i % 3 == 0 {
      w.prefer_cached = true;
    }
    reg_check(report, &w, &[], None, "reggen");
  }
}
