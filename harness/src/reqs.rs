//! The fast-check range finder's request bookkeeping (`NamedSubset`, `Exports`, `ImportedExports`,
//! `HandledExports`, `PendingTraces`; hook H1) against the Lean model `DG/Subset.lean`, with the
//! statement-level oracle "whatever a request covers is covered by a difference handed on for tracing".
use crate::report::*;
use crate::rng::Rng;
use crate::walkprops::Batch;
use deno_graph::fast_check::verif::ExportsSpec;
use deno_graph::fast_check::verif::RecordSpec;
use deno_graph::fast_check::verif::TreeOp;
use serde_json::json;

const NAMES: &[&str] = &["default", "A", "B", "C"];

fn gen_ops(rng: &mut Rng, depth: usize) -> Vec<TreeOp> {
  let n = 1 + rng.below(3);
  let mut v = vec![];
  for _ in 0..n {
    let name = NAMES[rng.below(NAMES.len())].to_string();
    v.push(match rng.below(if depth == 0 { 2 } else { 3 }) {
      0 => TreeOp::Add(name),
      1 => {
        let k = 1 + rng.below(3);
        TreeOp::AddQualified(name, (0..k).map(|_| NAMES[rng.below(NAMES.len())].to_string()).collect())
      }
      _ => TreeOp::AddNamed(name, if rng.chance(1, 3) { ExportsSpec::All } else { ExportsSpec::Subset(gen_ops(rng, depth - 1)) }),
    });
  }
  v
}

fn gen_record(rng: &mut Rng) -> RecordSpec {
  match rng.below(6) {
    0 => RecordSpec::Star,
    1 => RecordSpec::StarWithDefault,
    _ => RecordSpec::Subset(gen_ops(rng, 2)),
  }
}

fn ops_sexp(ops: &[TreeOp]) -> String {
  ops
    .iter()
    .map(|op| match op {
      TreeOp::Add(n) => format!("(a {})", n),
      TreeOp::AddQualified(n, ps) => format!("(q {} {})", n, ps.join(" ")),
      TreeOp::AddNamed(n, ExportsSpec::All) => format!("(n {} *)", n),
      TreeOp::AddNamed(n, ExportsSpec::Subset(o)) => format!("(n {} (sub {}))", n, ops_sexp(o)),
    })
    .collect::<Vec<_>>()
    .join(" ")
}

fn rec_sexp(r: &RecordSpec) -> String {
  match r {
    RecordSpec::Star => "star".into(),
    RecordSpec::StarWithDefault => "star+default".into(),
    RecordSpec::Subset(o) => format!("(tree {})", ops_sexp(o)),
  }
}

/// a printed tree / record read back, for the oracle
#[derive(Debug, Clone)]
enum T {
  All,
  Sub(Vec<(String, T)>),
}

fn parse_tree(s: &[u8], i: &mut usize) -> Vec<(String, T)> {
  // entries `k:*` or `k:{...}` separated by commas, up to `}` or the end
  let mut v = vec![];
  while *i < s.len() && s[*i] != b'}' {
    let st = *i;
    while s[*i] != b':' {
      *i += 1;
    }
    let k = String::from_utf8_lossy(&s[st..*i]).to_string();
    *i += 1;
    let t = if s[*i] == b'*' {
      *i += 1;
      T::All
    } else {
      *i += 1; // {
      let inner = parse_tree(s, i);
      *i += 1; // }
      T::Sub(inner)
    };
    v.push((k, t));
    if *i < s.len() && s[*i] == b',' {
      *i += 1;
    }
  }
  v
}

#[derive(Debug, Clone)]
enum R {
  Star,
  StarDefault,
  Tree(Vec<(String, T)>),
}

fn parse_record(s: &str) -> R {
  match s {
    "star" => R::Star,
    "star+default" => R::StarDefault,
    _ => {
      let b = s.as_bytes();
      let mut i = 1;
      R::Tree(parse_tree(b, &mut i))
    }
  }
}

fn covers_t(t: &T, p: &[&str]) -> bool {
  match t {
    T::All => true,
    T::Sub(m) => covers_m(m, p),
  }
}

fn covers_m(m: &[(String, T)], p: &[&str]) -> bool {
  match p.split_first() {
    None => false,
    Some((x, xs)) => m.iter().any(|(k, v)| k == x && covers_t(v, xs)),
  }
}

fn covers_r(r: &R, p: &[&str]) -> bool {
  match (r, p.first()) {
    (_, None) => false,
    (R::Star, Some(x)) => *x != "default",
    (R::StarDefault, Some(_)) => true,
    (R::Tree(m), _) => covers_m(m, p),
  }
}

fn paths() -> Vec<Vec<&'static str>> {
  let mut v = vec![];
  for a in NAMES {
    v.push(vec![*a]);
    for b in NAMES {
      v.push(vec![*a, *b]);
      for c in NAMES {
        v.push(vec![*a, *b, *c]);
        v.push(vec![*a, *b, *c, "A"]);
      }
    }
  }
  v
}

/// the record a request stands for on its own (what `HandledExports::add` stores for a first request)
fn request_record(r: &RecordSpec) -> R {
  parse_record(&deno_graph::fast_check::verif::handled(std::slice::from_ref(r)).0)
}

pub fn reqs_part(report: &mut Report, batch: &mut Batch, rng: &mut Rng, n: usize) {
  use deno_graph::fast_check::verif;
  let all_paths = paths();
  // corpus first: the history behind finding F32
  let f32_history = vec![
    RecordSpec::Subset(vec![TreeOp::AddQualified("default".into(), vec!["A".into()])]),
    RecordSpec::Star,
    RecordSpec::Subset(vec![TreeOp::AddQualified("default".into(), vec!["B".into()])]),
  ];
  for i in 0..n {
    // trees and their merge
    let a = gen_ops(rng, 2);
    let b = gen_ops(rng, 2);
    let replay = json!({"tree_a": ops_sexp(&a), "tree_b": ops_sexp(&b)});
    batch.descs.push(replay.clone());
    batch.push(format!("(req-tree ({}))", ops_sexp(&a)), verif::tree(&a), false);
    let (merged, diff) = verif::extend(&a, &b);
    batch.push(format!("(req-extend ({}) ({}))", ops_sexp(&a), ops_sexp(&b)), format!("{} ; {}", merged, diff), false);
    if i % 4 == 0 {
      let k = 1 + rng.below(4);
      let parts: Vec<String> = (0..k).map(|_| NAMES[rng.below(NAMES.len())].to_string()).collect();
      batch.push(format!("(req-parts {})", parts.join(" ")), verif::from_parts(&parts), false);
    }
    report.evaluations += 2;
    {
      // oracle on the merge: the result covers both, what `b` covers is in `a` or in the difference,
      // and the result claims nothing beyond `a` and the difference
      let ta = parse_record(&format!("{{{}}}", verif::tree(&a)));
      let tb = parse_record(&format!("{{{}}}", verif::tree(&b)));
      let tm = parse_record(&format!("{{{}}}", merged));
      let td = parse_record(&format!("{{{}}}", diff));
      for p in &all_paths {
        let (ca, cb, cm, cd) = (covers_r(&ta, p), covers_r(&tb, p), covers_r(&tm, p), covers_r(&td, p));
        if (ca || cb) && !cm {
          report.fail("oracle", "merged-request-loses-a-path", format!("{:?}: covered by an operand, not by the merged tree {}", p, merged), replay.clone());
        }
        if cb && !ca && !cd {
          report.fail("oracle", "requested-path-neither-handled-nor-in-difference", format!("{:?}: covered by the new tree, not by the old one nor by the difference {}", p, diff), replay.clone());
        }
        if cm && !ca && !cd {
          report.fail("oracle", "record-claims-untraced-path", format!("{:?}: the merged tree {} covers it; the old tree and the difference {} do not", p, merged, diff), replay.clone());
        }
      }
    }
    // histories of requests for one module
    let history: Vec<RecordSpec> = if i == 0 { f32_history.clone() } else { (0..2 + rng.below(4)).map(|_| gen_record(rng)).collect() };
    let hs: Vec<String> = history.iter().map(rec_sexp).collect();
    let replay = json!({"requests_for_one_module": hs});
    batch.descs.push(replay.clone());
    let (fin, diffs) = verif::handled(&history);
    batch.push(
      format!("(req-handled {})", hs.join(" ")),
      format!("{} ; {}", fin, diffs.iter().map(|d| d.clone().unwrap_or("-".into())).collect::<Vec<_>>().join(" | ")),
      false,
    );
    batch.push(format!("(req-pending {})", hs.join(" ")), verif::pending(&history), false);
    report.evaluations += 2;
    let reqs: Vec<R> = history.iter().map(request_record).collect();
    let ds: Vec<R> = diffs.iter().flatten().map(|d| parse_record(d)).collect();
    let pend = parse_record(&verif::pending(&history));
    for p in &all_paths {
      for (k, r) in reqs.iter().enumerate() {
        if covers_r(r, p) {
          if !ds.iter().any(|d| covers_r(d, p)) {
            report.fail(
              "oracle",
              "request-never-traced",
              format!("{:?} is covered by request #{} ({}) and by none of the differences handed on for tracing {:?}", p, k, hs[k], diffs),
              replay.clone(),
            );
          }
          if !covers_r(&pend, p) {
            report.fail("oracle", "pending-merge-loses-a-path", format!("{:?} is covered by request #{} ({}) and not by the merged pending trace {}", p, k, hs[k], verif::pending(&history)), replay.clone());
          }
        }
      }
    }
    report.nontrivial.insert(format!(
      "requests/{}/{}",
      history.iter().map(|r| match r { RecordSpec::Star => "s", RecordSpec::StarWithDefault => "d", RecordSpec::Subset(_) => "t" }).collect::<String>(),
      diffs.iter().map(|d| if d.is_some() { "+" } else { "-" }).collect::<String>()
    ));
    report.count("request-bookkeeping-histories");
  }
}
