//! C10: the analysis that decides whether an initialiser is left in the emitted module
//! (`maybe_transform_expr_if_leavable`) against `DG/Leave.lean`, on generated expression trees.
//!
//! Every tree is rendered as `export const x = [<expr>];` in a one-module package: an array is not
//! inferable, so the verdict of the package is the verdict of the analysis on `[<expr>]` — a module
//! whose initialiser is left, or a diagnostic. Operands are always parenthesised, and the tree sent
//! to the model carries the `paren` nodes, so the two sides see the same syntax tree.
use crate::fc::*;
use crate::report::*;
use crate::rng::Rng;
use crate::walkprops::Batch;
use serde_json::json;

#[derive(Clone, Debug)]
pub enum LExpr {
  Atom(&'static str),
  Logic(&'static str),
  Arr(Vec<Option<LExpr>>),
  Obj(Vec<LProp>),
  Unary(&'static str, Box<LExpr>),
  Update,
  Bin(&'static str, Box<LExpr>, Box<LExpr>),
  Cond(Box<LExpr>, Box<LExpr>, Box<LExpr>),
  Member(Box<LExpr>),
  MemberComputed(Box<LExpr>, Box<LExpr>),
  Await(Box<LExpr>),
  Paren(Box<LExpr>),
  As(Box<LExpr>),
  Const(Box<LExpr>),
  NonNull(Box<LExpr>),
  Satisfies(Box<LExpr>),
  Tpl(Vec<LExpr>),
  Fn,
}

#[derive(Clone, Debug)]
pub enum LProp {
  Shorthand,
  Kv(&'static str, LExpr),
  KvComputed(LExpr, LExpr),
  Method(&'static str),
  Spread(LExpr),
}

fn paren(e: LExpr) -> Box<LExpr> {
  Box::new(LExpr::Paren(Box::new(e)))
}

fn gen_expr(rng: &mut Rng, depth: usize, p_logic: usize) -> LExpr {
  if depth == 0 || rng.chance(1, 4) {
    return if rng.chance(p_logic, 100) {
      LExpr::Logic(["compute()", "new Map()", "tag`x`", "y?.z"][rng.below(4)])
    } else {
      LExpr::Atom(["y", "v0", "1", "\"s\"", "true", "null", "10n", "/re/"][rng.below(8)])
    };
  }
  let d = depth - 1;
  match rng.below(16) {
    0 | 1 => {
      let n = rng.range(1, 3);
      LExpr::Arr((0..n).map(|_| if rng.chance(1, 8) { None } else { Some(gen_expr(rng, d, p_logic)) }).collect())
    }
    2 | 3 => {
      let n = rng.range(1, 3);
      LExpr::Obj(
        (0..n)
          .map(|i| match rng.below(8) {
            0 => LProp::Shorthand,
            1 => LProp::KvComputed(gen_expr(rng, d, p_logic), gen_expr(rng, d, p_logic)),
            2 if rng.chance(p_logic, 100) => LProp::Method(["m() {}", "get g() { return 1; }", "set s(v: number) {}"][rng.below(3)]),
            3 => LProp::Spread(gen_expr(rng, d, p_logic)),
            _ => LProp::Kv(["a", "\"b\"", "1", "c"][(i + rng.below(2)) % 4], gen_expr(rng, d, p_logic)),
          })
          .collect(),
      )
    }
    4 => LExpr::Unary(["-", "!", "typeof ", "void "][rng.below(4)], paren(gen_expr(rng, d, p_logic))),
    5 => LExpr::Update,
    6 | 7 => LExpr::Bin(["+", "*", "&&", "??", "<"][rng.below(5)], paren(gen_expr(rng, d, p_logic)), paren(gen_expr(rng, d, p_logic))),
    8 => LExpr::Cond(paren(gen_expr(rng, d, p_logic)), paren(gen_expr(rng, d, p_logic)), paren(gen_expr(rng, d, p_logic))),
    9 => LExpr::Member(paren(gen_expr(rng, d, p_logic))),
    10 => LExpr::MemberComputed(paren(gen_expr(rng, d, p_logic)), Box::new(gen_expr(rng, d, p_logic))),
    11 => match rng.below(5) {
      0 => LExpr::Await(paren(gen_expr(rng, d, p_logic))),
      1 => LExpr::Const(paren(gen_expr(rng, d, p_logic))),
      2 => LExpr::NonNull(paren(gen_expr(rng, d, p_logic))),
      3 => LExpr::Satisfies(paren(gen_expr(rng, d, p_logic))),
      _ => LExpr::Fn,
    },
    12 => LExpr::As(paren(gen_expr(rng, d, 60))),
    _ => {
      let n = rng.range(1, 3);
      LExpr::Tpl((0..n).map(|_| gen_expr(rng, d, p_logic)).collect())
    }
  }
}

pub fn render(e: &LExpr) -> String {
  match e {
    LExpr::Atom(t) | LExpr::Logic(t) => t.to_string(),
    LExpr::Arr(es) => format!("[{}]", es.iter().map(|e| e.as_ref().map(render).unwrap_or_default()).collect::<Vec<_>>().join(", ")),
    LExpr::Obj(ps) => format!(
      "{{ {} }}",
      ps.iter()
        .map(|p| match p {
          LProp::Shorthand => "y".to_string(),
          LProp::Kv(k, v) => format!("{}: {}", k, render(v)),
          LProp::KvComputed(k, v) => format!("[{}]: {}", render(k), render(v)),
          LProp::Method(t) => t.to_string(),
          LProp::Spread(e) => format!("...{}", render(e)),
        })
        .collect::<Vec<_>>()
        .join(", ")
    ),
    LExpr::Unary(op, a) => format!("{}{}", op, render(a)),
    LExpr::Update => "y++".into(),
    LExpr::Bin(op, l, r) => format!("{} {} {}", render(l), op, render(r)),
    LExpr::Cond(t, c, a) => format!("{} ? {} : {}", render(t), render(c), render(a)),
    LExpr::Member(o) => format!("{}.name", render(o)),
    LExpr::MemberComputed(o, k) => format!("{}[{}]", render(o), render(k)),
    LExpr::Await(a) => format!("await {}", render(a)),
    LExpr::Paren(e) => format!("({})", render(e)),
    LExpr::As(e) => format!("{} as number", render(e)),
    LExpr::Const(e) => format!("{} as const", render(e)),
    LExpr::NonNull(e) => format!("{}!", render(e)),
    LExpr::Satisfies(e) => format!("{} satisfies unknown", render(e)),
    LExpr::Tpl(subs) => format!("`t{}`", subs.iter().map(|s| format!("${{{}}}-", render(s))).collect::<String>()),
    LExpr::Fn => "(a: number): number => 1".into(),
  }
}

pub fn sexp(e: &LExpr) -> String {
  match e {
    LExpr::Atom(_) => "atom".into(),
    LExpr::Logic(_) => "logic".into(),
    LExpr::Arr(es) => format!("(arr {})", es.iter().map(|e| e.as_ref().map(sexp).unwrap_or("hole".into())).collect::<Vec<_>>().join(" ")),
    LExpr::Obj(ps) => format!(
      "(obj {})",
      ps.iter()
        .map(|p| match p {
          LProp::Shorthand => "shorthand".to_string(),
          LProp::Kv(_, v) => format!("(kv {})", sexp(v)),
          LProp::KvComputed(k, v) => format!("(kvc {} {})", sexp(k), sexp(v)),
          LProp::Method(_) => "method".to_string(),
          LProp::Spread(e) => format!("(spread {})", sexp(e)),
        })
        .collect::<Vec<_>>()
        .join(" ")
    ),
    LExpr::Unary(_, a) => format!("(unary {})", sexp(a)),
    LExpr::Update => "(update atom)".into(),
    LExpr::Bin(_, l, r) => format!("(bin {} {})", sexp(l), sexp(r)),
    LExpr::Cond(t, c, a) => format!("(cond {} {} {})", sexp(t), sexp(c), sexp(a)),
    LExpr::Member(o) => format!("(member {})", sexp(o)),
    LExpr::MemberComputed(o, k) => format!("(member-computed {} {})", sexp(o), sexp(k)),
    LExpr::Await(a) => format!("(await {})", sexp(a)),
    LExpr::Paren(e) => format!("(paren {})", sexp(e)),
    LExpr::As(e) => format!("(as {})", sexp(e)),
    LExpr::Const(e) => format!("(const {})", sexp(e)),
    LExpr::NonNull(e) => format!("(nonnull {})", sexp(e)),
    LExpr::Satisfies(e) => format!("(satisfies {})", sexp(e)),
    LExpr::Tpl(subs) => format!("(tpl {})", subs.iter().map(sexp).collect::<Vec<_>>().join(" ")),
    LExpr::Fn => "fn".into(),
  }
}

/// the statement, on its own: does anything that would stay in the output carry logic?
pub fn has_logic(e: &LExpr) -> bool {
  match e {
    LExpr::Atom(_) | LExpr::Update | LExpr::Fn => false,
    LExpr::Logic(_) => true,
    LExpr::Arr(es) => es.iter().flatten().any(has_logic),
    LExpr::Obj(ps) => ps.iter().any(|p| match p {
      LProp::Shorthand => false,
      LProp::Kv(_, v) => has_logic(v),
      LProp::KvComputed(k, v) => has_logic(k) || has_logic(v),
      LProp::Method(_) => true,
      LProp::Spread(e) => has_logic(e),
    }),
    LExpr::Unary(_, a) | LExpr::Member(a) | LExpr::Await(a) | LExpr::Paren(a) | LExpr::Const(a) | LExpr::NonNull(a) | LExpr::Satisfies(a) => has_logic(a),
    LExpr::Bin(_, l, r) | LExpr::MemberComputed(l, r) => has_logic(l) || has_logic(r),
    LExpr::Cond(t, c, a) => has_logic(t) || has_logic(c) || has_logic(a),
    // the operand of `as T` is replaced by a placeholder
    LExpr::As(_) => false,
    LExpr::Tpl(subs) => subs.iter().any(has_logic),
  }
}

pub fn leavable_part(report: &mut Report, batch: &mut Batch, rng: &mut Rng, n: usize) {
  for i in 0..n {
    let mut r = rng.fork();
    let e = gen_expr(&mut r, 1 + i % 3, [0, 15, 35][i % 3]);
    let text = format!(
      "export const y: any = 1;\nexport const v0: string = \"s\";\nexport function compute(): any {{ return 1; }}\nexport function tag(s: TemplateStringsArray): string {{ return \"\"; }}\nexport const x = [{}];\n",
      render(&e)
    );
    let w = FcWorld {
      main: "import * as a from \"jsr:@s/a@1\";\n".into(),
      pkgs: vec![FcPackage {
        name: "@s/a".into(),
        version: "1.0.0".into(),
        exports: vec![(".".to_string(), "./mod.ts".to_string())],
        files: vec![("/mod.ts".to_string(), text.clone())],
      }],
    };
    let run = run_fast_check(&w, None, false);
    let replay = json!({"expression": render(&e), "tree": sexp(&e), "module": text});
    report.evaluations += 1;
    let observed = match run.slots.values().next() {
      Some(FcSlot::Module { text: out, .. }) => {
        // left verbatim: the initialiser is still an array
        if out.contains("x = [") { "leave" } else { "dropped" }
      }
      Some(FcSlot::Diagnostics(_)) => "diagnostic",
      _ => "none",
    };
    batch.descs.push(replay.clone());
    batch.push(format!("(leavable (arr {}))", sexp(&e)), observed.to_string(), false);
    // the statement: logic never stays; what has no logic in it need not be reported
    let logic = has_logic(&e);
    if logic && observed != "diagnostic" {
      report.fail("oracle", "initialiser-keeps-logic", format!("`[{}]` holds a call / new / method / … and is {} in the output", render(&e), observed), replay.clone());
    }
    if !logic && observed != "leave" {
      report.fail("oracle", "logic-free-initialiser-not-left", format!("`[{}]` holds no logic and is {}", render(&e), observed), replay.clone());
    }
    report.count(&format!("leavable-analysis:{}", observed));
    report.nontrivial.insert(format!("leavable/{}/{}", observed, sexp(&e).split(' ').next().unwrap_or("").trim_start_matches('(')));
  }
}
