//! C14 — redirect following terminates and all lookups agree with the walk.
use crate::battery::*;
use crate::build::*;
use crate::dump;
use crate::dump::Ctx;
use crate::report::*;
use crate::rng::Rng;
use crate::world::*;
use deno_graph::Module;
use deno_graph::ModuleEntryRef;
use deno_graph::ModuleGraph;
use deno_graph::ModuleSpecifier;
use deno_graph::Resolution;
use serde_json::Value;
use serde_json::json;
use std::collections::BTreeMap;
use std::collections::HashMap;
use std::collections::HashSet;

pub const RESOLVE_CAP_HOPS: usize = 10; // MAX_REDIRECTS = 10 specifiers seen: chains of >= 10 hops stop early

#[derive(Debug, Clone, PartialEq, Eq)]
pub enum End {
  Module(ModuleSpecifier),
  Err(String),
  Nothing,
}

/// Where the *walk* ends when started at `s`: follow yielded redirect entries.
pub fn walk_end(g: &ModuleGraph, s: &ModuleSpecifier) -> End {
  let opts = deno_graph::WalkOptions {
    check_js: deno_graph::CheckJsOption::True,
    follow_dynamic: true,
    kind: deno_graph::GraphKind::All,
    prefer_fast_check_graph: false,
  };
  let mut entries: HashMap<ModuleSpecifier, ModuleEntryRef> = HashMap::new();
  for (k, e) in g.walk(std::iter::once(s), opts) {
    entries.entry(k.clone()).or_insert(e);
  }
  let mut cur = s.clone();
  let mut visited = HashSet::new();
  loop {
    if !visited.insert(cur.clone()) {
      return End::Nothing;
    }
    match entries.get(&cur) {
      Some(ModuleEntryRef::Module(m)) => return End::Module(m.specifier().clone()),
      Some(ModuleEntryRef::Err(e)) => return End::Err(e.to_string_with_range()),
      Some(ModuleEntryRef::Redirect(to)) => cur = (*to).clone(),
      None => return End::Nothing,
    }
  }
}

#[derive(Debug, Clone, Default)]
pub struct ChainFacts {
  pub hops: usize,
  pub cyclic: bool,
  pub slot_on_source: bool,
  /// a module (not an error) is stored under a redirect source of the chain
  pub module_on_source: bool,
  /// the redirect sources of the chain that hold a module
  pub modules_on_source: Vec<ModuleSpecifier>,
}

impl ChainFacts {
  /// a member of the chain is both a redirect source and the key of an entry (error or module)
  pub fn entry_on_source(&self) -> bool {
    self.slot_on_source || self.module_on_source
  }
}

/// the chain `resolve` follows from `s`: redirect entries of specifiers that have no entry of their own
pub fn chain_facts(g: &ModuleGraph, slot_keys: &HashSet<ModuleSpecifier>, s: &ModuleSpecifier) -> ChainFacts {
  let mut f = ChainFacts::default();
  let mut cur = s.clone();
  let mut seen = HashSet::new();
  seen.insert(cur.clone());
  while let Some(next) = g.redirects.get(&cur) {
    if slot_keys.contains(&cur) {
      // an entry stored under a redirect source: the walk stops here, and (since the repair of
      // F12 / F35) so do the lookups
      let is_error = g.verif_slots().into_iter().any(|(k, sl, _)| *k == cur && matches!(sl, Some(Err(_))));
      if is_error {
        f.slot_on_source = true;
      } else {
        f.module_on_source = true;
        f.modules_on_source.push(cur.clone());
      }
      break;
    }
    f.hops += 1;
    if !seen.insert(next.clone()) {
      f.cyclic = true;
      break;
    }
    cur = next.clone();
  }
  f
}

fn classify(f: &ChainFacts) -> &'static str {
  if f.hops >= RESOLVE_CAP_HOPS {
    "resolve-cap"
  } else if f.cyclic {
    "redirect-cycle"
  } else if f.module_on_source {
    "module-stored-under-redirect-source"
  } else if f.slot_on_source {
    "slot-on-redirect-source"
  } else {
    "lookup-disagrees-with-walk"
  }
}

pub struct Case {
  /// false for synthetic layouts no build or lockfile seeding can produce: only the
  /// model correspondence is checked there, not the property oracle
  pub in_scope: bool,
  pub graph: ModuleGraph,
  pub ctx: Ctx,
  pub desc: Value,
  pub universe: Vec<ModuleSpecifier>,
}

/// requests + implementation answers + oracle for one graph
pub fn run_case(
  report: &mut Report,
  case: &mut Case,
  reqs: &mut Vec<String>,
  imps: &mut Vec<String>,
  sets: &mut Vec<bool>,
  origin: &mut Vec<usize>,
  case_id: usize,
) {
  let g = &case.graph;
  let ctx = &mut case.ctx;
  let mut push = |r: String, i: String, set: bool| {
    reqs.push(r);
    imps.push(i);
    sets.push(set);
    origin.push(case_id);
  };
  push(format!("(g {})", dump::graph(ctx, g)), "ok".into(), false);
  let slot_keys: HashSet<ModuleSpecifier> = g.verif_slots().into_iter().map(|(k, _, _)| k.clone()).collect();
  // every specifier the graph knows plus the universe
  let mut all: Vec<ModuleSpecifier> = case.universe.clone();
  for s in ctx.specs.list.clone() {
    if let Ok(u) = ModuleSpecifier::parse(&s) {
      if !all.contains(&u) {
        all.push(u);
      }
    }
  }
  let mut max_hops = 0;
  let mut any_cycle = false;
  for s in &all {
    let si = ctx.spec(s);
    push(req_lookup(si), impl_lookup(ctx, g, si), false);
    report.evaluations += 1;
    // ---- oracle: lookups vs the walk --------------------------------------
    let end = walk_end(g, s);
    let facts = chain_facts(g, &slot_keys, s);
    max_hops = max_hops.max(facts.hops);
    any_cycle |= facts.cyclic;
    let got_get = g.get(s).map(|m| m.specifier().clone());
    let got_try = match g.try_get(s) {
      Ok(Some(m)) => End::Module(m.specifier().clone()),
      Ok(None) => End::Nothing,
      Err(e) => End::Err(e.to_string_with_range()),
    };
    let contains = g.contains(s);
    let expect_get = match &end {
      End::Module(k) => Some(k.clone()),
      _ => None,
    };
    let mut bad = vec![];
    if got_get != expect_get {
      bad.push(format!("get={:?} walk-end={:?}", got_get.as_ref().map(|u| u.as_str()), end));
    }
    if got_try != end {
      bad.push(format!("try_get={:?} walk-end={:?}", got_try, end));
    }
    if contains != matches!(end, End::Module(_)) {
      bad.push(format!("contains={} walk-end={:?}", contains, end));
    }
    // resolve is idempotent
    let r1 = g.resolve(s).clone();
    let r2 = g.resolve(&r1).clone();
    if r1 != r2 {
      bad.push(format!("resolve not idempotent: {} -> {} -> {}", s, r1, r2));
    }
    if !bad.is_empty() && case.in_scope {
      let shape = classify(&facts);
      report.fail(
        "oracle",
        shape,
        format!("{}: {} (chain hops={}, cyclic={})", s, bad.join("; "), facts.hops, facts.cyclic),
        json!({"specifier": s.as_str(), "facts": format!("{:?}", facts), "problems": bad, "case": case.desc}),
      );
    }
  }
  report.count(&format!("max-chain-hops:{}", max_hops.min(16)));
  if any_cycle {
    report.count("graphs-with-redirect-cycle");
  }
  // ---- specifiers() ---------------------------------------------------------
  push(req_specifiers(), impl_specifiers(ctx, g), false);
  if case.in_scope {
    let listed: BTreeMap<String, Result<String, String>> = g
      .specifiers()
      .map(|(k, r)| {
        (
          k.to_string(),
          match r {
            Ok(m) => Ok(m.specifier().to_string()),
            Err(e) => Err(e.to_string_with_range()),
          },
        )
      })
      .collect();
    for (k, slot, _) in g.verif_slots() {
      if slot.is_some() && !listed.contains_key(k.as_str()) {
        report.fail("oracle", "specifiers-misses-slot", format!("{} not listed", k), json!({"case": case.desc}));
      }
    }
    for (src, _) in &g.redirects {
      if slot_keys.contains(src) {
        continue; // listed as a slot
      }
      let end = walk_end(g, src);
      let facts = chain_facts(g, &slot_keys, src);
      let expect = match end {
        End::Module(k) => Some(Ok(k.to_string())),
        End::Err(e) => Some(Err(e)),
        End::Nothing => None,
      };
      let got = listed.get(src.as_str()).cloned();
      if got != expect {
        let shape = match classify(&facts) {
          "lookup-disagrees-with-walk" => "specifiers-disagrees-with-walk",
          other => other,
        };
        report.fail(
          "oracle",
          shape,
          format!("specifiers() entry for redirect source {}: {:?}, walk reaches {:?} (hops={})", src, got, expect, facts.hops),
          json!({"specifier": src.as_str(), "facts": format!("{:?}", facts), "case": case.desc}),
        );
      }
    }
  }
  // ---- resolve_dependency with and without type preference -------------------
  let mods: Vec<&Module> = g.modules().collect();
  for m in mods {
    for (text, dep) in m.dependencies() {
      for prefer in [false, true] {
        let d = dump::dep(ctx, text, dep);
        let got = g.resolve_dependency_from_dep(dep, prefer).cloned();
        push(req_resdep(&d, prefer), opt_nat(got.as_ref().map(|u| ctx.spec(u))), false);
        report.evaluations += 1;
        // also through the (text, referrer) API
        let got2 = g.resolve_dependency(text, m.specifier(), prefer).cloned();
        if !case.in_scope {
          continue;
        }
        // … and with the referrer named by a redirect source that leads to it: lookups and the walk
        // reach the module from there, so its dependencies resolve from there as well
        for (src, _) in g.redirects.iter().filter(|(a, _)| g.resolve(a) == m.specifier() && !slot_keys.contains(*a)).take(2) {
          let got3 = g.resolve_dependency(text, src, prefer).cloned();
          report.evaluations += 1;
          report.count("resolve-dependency:referrer-is-redirect-source");
          if got3 != got2 {
            let f3 = chain_facts(g, &slot_keys, src);
            report.fail(
              "oracle",
              if f3.module_on_source { classify(&f3) } else { "resolve-dependency-differs-by-referrer-alias" },
              format!("resolve_dependency({:?}, prefer_types={}) from {} = {:?}; from its redirect source {} = {:?}", text, prefer, m.specifier(), got2, src, got3),
              json!({"case": case.desc}),
            );
          }
        }
        if got2 != got {
          let shape = if g.redirects.contains_key(m.specifier()) {
            "slot-on-redirect-source" // the referrer itself is resolved through the redirect table
          } else {
            "resolve-dependency-api-mismatch"
          };
          report.fail(
            "oracle",
            shape,
            format!("resolve_dependency({}, {}) = {:?} but from_dep = {:?}", text, m.specifier(), got2, got),
            json!({"case": case.desc}),
          );
        }
        // oracle
        let first = if prefer { &dep.maybe_type } else { &dep.maybe_code };
        let second = if prefer { &dep.maybe_code } else { &dep.maybe_type };
        let target = first.maybe_specifier().or_else(|| second.maybe_specifier());
        let (expect, facts) = match target {
          None => (None, ChainFacts::default()),
          Some(t) => {
            let f = chain_facts(g, &slot_keys, t);
            match walk_end(g, t) {
              End::Module(k) => {
                let mut res = Some(k.clone());
                if prefer {
                  if let Some(Module::Js(js)) = g.verif_slots().into_iter().find_map(|(kk, sl, _)| {
                    if *kk == k { sl.and_then(|r| r.ok()) } else { None }
                  }) {
                    if let Some(Resolution::Ok(r)) = js.maybe_types_dependency.as_ref().map(|d| &d.dependency) {
                      if let End::Module(tk) = walk_end(g, &r.specifier) {
                        res = Some(tk);
                      }
                    }
                  }
                }
                (res, f)
              }
              _ => (None, f),
            }
          }
        };
        if got != expect {
          let mut shape = classify(&facts);
          if shape == "lookup-disagrees-with-walk" {
            // the types dependency chain may be the long one
            shape = "resolve-dependency-disagrees-with-walk";
            if let Some(t) = target {
              if let End::Module(k) = walk_end(g, t) {
                if let Some(Module::Js(js)) = g.get(&k) {
                  if let Some(Resolution::Ok(r)) = js.maybe_types_dependency.as_ref().map(|d| &d.dependency) {
                    let f2 = chain_facts(g, &slot_keys, &r.specifier);
                    if f2.slot_on_source || f2.cyclic || f2.hops >= RESOLVE_CAP_HOPS {
                      shape = classify(&f2);
                    }
                  }
                }
              }
            }
          }
          report.fail(
            "oracle",
            shape,
            format!(
              "resolve_dependency({:?} in {}, prefer_types={}) = {:?}, walk says {:?}",
              text,
              m.specifier(),
              prefer,
              got.as_ref().map(|u| u.as_str()),
              expect.as_ref().map(|u| u.as_str())
            ),
            json!({"case": case.desc, "facts": format!("{:?}", facts)}),
          );
        }
      }
    }
  }
}

fn base_graph_for_tables() -> (ModuleGraph, Vec<ModuleSpecifier>) {
  // a.ts imports b.ts and missing e.ts; u3/u4 are never loaded
  let mk = |s: &str| ModuleSpecifier::parse(s).unwrap();
  let specs = vec![
    mk("https://h.example/w/a.ts"),
    mk("https://h.example/w/b.ts"),
    mk("https://h.example/w/e.ts"),
    mk("https://h.example/w/u3.ts"),
    mk("https://h.example/w/u4.ts"),
  ];
  let w = World {
    specs: specs.clone(),
    resp: vec![
      Resp::Module {
        final_spec: 0,
        headers: None,
        items: vec![
          Item { form: Form::Namespace, text: "./b.ts".into() },
          Item { form: Form::Namespace, text: "./e.ts".into() },
          Item { form: Form::Dynamic, text: "./u3.ts".into() },
        ],
        broken: Broken::No,
        raw: None,
      },
      Resp::Module { final_spec: 1, headers: None, items: vec![], broken: Broken::No, raw: None },
      Resp::Missing,
      Resp::Missing,
      Resp::Missing,
    ],
    roots: vec![0],
    imports: vec![],
    kind: deno_graph::GraphKind::All,
    opts: Opts { skip_dynamic_deps: true, ..Default::default() },
    ..Default::default()
  };
  let loader = ScriptedLoader::new(&w);
  let g = build_world(&w, &loader);
  (g, specs)
}

/// Stale lockfile redirects for a world: a specifier the loader redirects to (and serves directly as a
/// module) is listed as a redirect source leading to another module.  No seed starts where another
/// ends: a lockfile whose redirects form a cycle is a different input (section (b) covers every cyclic
/// table; finding F11).
pub fn stale_seeds(w: &World, wr: &mut Rng) -> Vec<(String, String)> {
  let is_plain_module = |i: usize| matches!(&w.resp[i], Resp::Module { final_spec, .. } if *final_spec == i);
  let mut seeds: Vec<(String, String)> = vec![];
  for (i, r) in w.resp.iter().enumerate() {
    // the loader redirects to t, or answers another request with a module whose final specifier is t
    let t = match r {
      Resp::Redirect(t) => Some(t),
      Resp::Module { final_spec, .. } if *final_spec != i => Some(final_spec),
      _ => None,
    };
    if let Some(t) = t {
      if is_plain_module(*t) && wr.chance(1, 2) {
        let cands: Vec<usize> = (0..w.specs.len()).filter(|u| *u != *t && is_plain_module(*u)).collect();
        if !cands.is_empty() {
          let u = cands[wr.below(cands.len())];
          let (ts, us) = (w.specs[*t].to_string(), w.specs[u].to_string());
          if !seeds.iter().any(|(a, b)| *a == ts || *a == us || *b == ts) {
            seeds.push((ts, us));
          }
        }
      }
    }
  }
  seeds
}

pub fn run(tier: &str, seed: u64) -> Report {
  let mut report = Report::new("C14");
  report.rule = "graphs: (a) built from generated worlds with forced redirect chains of 0..=13 hops and cycles of 2..=6, \
    (b) every redirect table over 5 specifiers (6^5 functions, incl. onto slots) written into graph.redirects on a real graph; \
    per graph every known specifier is queried (resolve/get/contains/try_get/try_get_prefer_types), specifiers() and every \
    dependency with both type preferences; non-trivial = distinct (chain hops, cyclic, slot-on-source, end kind) classes"
    .into();
  let mut rng = Rng::new(seed);
  quiet_panics();
  let mut reqs = vec![];
  let mut imps = vec![];
  let mut sets = vec![];
  let mut origin = vec![];
  let mut descs: Vec<Value> = vec![];

  // (b) exhaustive redirect tables
  let (base, specs) = base_graph_for_tables();
  let n = specs.len();
  let total_tables = (n + 1).pow(n as u32);
  let step = if std::env::var("DGH_SKIP_TABLES").is_ok() { total_tables } else { 1 };
  let mut t = 0usize;
  while t < total_tables {
    let mut g = base.clone();
    let mut code = t;
    let mut table = vec![];
    for i in 0..n {
      let v = code % (n + 1);
      code /= n + 1;
      if v < n {
        g.redirects.insert(specs[i].clone(), specs[v].clone());
        table.push(format!("{}->{}", i, v));
      }
    }
    let desc = json!({"source": "exhaustive-redirect-table", "table": table, "specs": specs.iter().map(|s| s.as_str()).collect::<Vec<_>>(),
       "slots": "0,1 modules; 2 missing-error; 3,4 none"});
    // a redirect whose source has a slot cannot come from a build or from lockfile seeding of
    // a fresh graph; such tables validate the model only
    let in_scope = (0..3).all(|i| !g.redirects.contains_key(&specs[i]));
    let mut case = Case { in_scope, graph: g, ctx: Ctx::default(), desc: desc.clone(), universe: specs.clone() };
    descs.push(desc);
    let id = descs.len() - 1;
    run_case(&mut report, &mut case, &mut reqs, &mut imps, &mut sets, &mut origin, id);
    report.count("exhaustive-redirect-tables");
    if in_scope {
      report.count("exhaustive-redirect-tables-in-scope-for-oracle");
    }
    t += step;
  }
  report.exhaustive.push(format!("all {} redirect tables over 5 specifiers on a real 3-slot graph", total_tables));

  // (a) built graphs
  let worlds = if tier == "thorough" { 4000 } else { 400 };
  for wi in 0..worlds {
    let mut cfg = GenCfg::default();
    cfg.chain = Some(wi % 14);
    if wi % 3 == 0 {
      cfg.cycle = Some(2 + (wi / 3) % 5);
    }
    if wi % 5 == 4 {
      cfg.remote = false;
    }
    let mut wr = rng.fork();
    let w = gen_world(&mut wr, &cfg);
    if std::env::var("DGH_DEBUG").is_ok() {
      eprintln!("world {} {}", wi, w.describe());
    }
    let loader = ScriptedLoader::new(&w);
    let g = match try_build_world(&w, &loader) {
      Ok(g) => g,
      Err(f) => {
        // a build that does not finish is C03's concern; C14 needs a finished graph
        report.count(&format!("skipped-build-failure:{:?}", f).chars().take(60).collect::<String>());
        continue;
      }
    };
    let desc = json!({"source": "built-world", "world_seed_index": wi, "world": w.describe()});
    let mut case = Case { in_scope: true, graph: g, ctx: Ctx::default(), desc: desc.clone(), universe: w.specs.clone() };
    descs.push(desc);
    let id = descs.len() - 1;
    if wi < 2 {
      report.sample(json!({"world": w.describe(), "graph": serde_json::to_value(&case.graph).unwrap()}));
    }
    run_case(&mut report, &mut case, &mut reqs, &mut imps, &mut sets, &mut origin, id);
    report.count("built-worlds");
    report.nontrivial.insert(format!("world-chain{}-cycle{:?}-kind{:?}", wi % 14, cfg.cycle, w.kind));
  }

  // (c) built graphs whose redirect table was seeded from a lockfile before the build, with stale
  // entries: a specifier the loader redirects to is itself listed as a redirect source although the
  // loader serves it as a module
  let seeded_worlds = if tier == "thorough" { 2000 } else { 250 };
  for wi in 0..seeded_worlds {
    let mut cfg = GenCfg::default();
    cfg.chain = Some(1 + wi % 4);
    let mut wr = rng.fork();
    let w = gen_world(&mut wr, &cfg);
    let seeds = stale_seeds(&w, &mut wr);
    if seeds.is_empty() {
      continue;
    }
    let mut graph = ModuleGraph::new(w.kind);
    graph.fill_from_lockfile(deno_graph::FillFromLockfileOptions {
      redirects: seeds.iter().map(|(a, b)| (a.as_str(), b.as_str())),
      package_specifiers: std::iter::empty(),
    });
    let loader = ScriptedLoader::new(&w);
    let roots = w.roots.iter().map(|r| w.specs[*r].clone()).collect::<Vec<_>>();
    let Ok(g) = crate::build::try_build(&w, &loader, graph, roots) else {
      report.count("skipped-build-failure:seeded");
      continue;
    };
    let desc = json!({"source": "built-world-with-lockfile-redirects", "lockfile_redirects": seeds, "world": w.describe()});
    // seeded sources that the loader names as the final specifier of a module returned for another
    // request (the input of finding F35, repaired): the module sits under a redirect source
    let reported_as_final = (0..w.specs.len())
      .filter(|t| seeds.iter().any(|(a, _)| *a == w.specs[*t].to_string()))
      .any(|t| w.resp.iter().enumerate().any(|(i, r)| i != t && matches!(r, Resp::Module { final_spec, .. } if *final_spec == t)));
    if reported_as_final {
      report.count("built-worlds-with-lockfile-redirects:seeded-source-reported-as-final");
    }
    let mut case = Case { in_scope: true, graph: g, ctx: Ctx::default(), desc: desc.clone(), universe: w.specs.clone() };
    descs.push(desc);
    let id = descs.len() - 1;
    run_case(&mut report, &mut case, &mut reqs, &mut imps, &mut sets, &mut origin, id);
    report.count("built-worlds-with-lockfile-redirects");
  }

  // correspondence: model vs implementation
  report.model_requests = reqs.len() as u64;
  match crate::model::run_model("C14", &reqs) {
    Ok(model) => {
      compare(&mut report, &reqs, &model, &imps, &sets, &|i| descs[origin[i]].clone());
    }
    Err(e) => report.fail("correspondence", "model-driver-failed", e, json!({})),
  }
  // distinct classes seen
  let keys: Vec<String> = report.distribution.keys().cloned().collect();
  for k in keys {
    report.nontrivial.insert(k);
  }
  report
}
