//! C04 — build results do not depend on load completion order or on the run.
use crate::absworld::*;
use crate::build::*;
use crate::c01::MODEL_FUEL;
use crate::c01::world_cfg;
use crate::dump::Ctx;
use crate::report::*;
use crate::rng::Rng;
use crate::walkprops::Batch;
use crate::world::*;
use deno_graph::ModuleGraph;
use deno_graph::ModuleSpecifier;
use deno_graph::source::CacheResponse;
use deno_graph::source::EnsureCachedFuture;
use deno_graph::source::LoadFuture;
use deno_graph::source::LoadOptions;
use deno_graph::source::LoadResponse;
use deno_graph::source::Loader;
use serde_json::json;
use std::cell::RefCell;
use std::collections::HashSet;
use std::future::Future;
use std::pin::Pin;
use std::rc::Rc;
use std::task::Context;
use std::task::Poll;

#[derive(Default)]
pub struct Gate {
  pub issued: usize,
  pub released: HashSet<usize>,
  pub outstanding: Vec<usize>,
  pub wakers: std::collections::HashMap<usize, std::task::Waker>,
}

/// a future that is ready once its id has been released
struct Gated<T> {
  id: usize,
  gate: Rc<RefCell<Gate>>,
  value: Option<T>,
}

impl<T: Unpin> Future for Gated<T> {
  type Output = T;
  fn poll(mut self: Pin<&mut Self>, cx: &mut Context<'_>) -> Poll<T> {
    if self.gate.borrow().released.contains(&self.id) {
      let id = self.id;
      self.gate.borrow_mut().outstanding.retain(|x| *x != id);
      Poll::Ready(self.value.take().unwrap())
    } else {
      let id = self.id;
      self.gate.borrow_mut().wakers.insert(id, cx.waker().clone());
      Poll::Pending
    }
  }
}

pub struct SchedLoader<'w> {
  pub inner: ScriptedLoader<'w>,
  pub gate: Rc<RefCell<Gate>>,
}

impl SchedLoader<'_> {
  fn gated<T: Unpin + 'static>(&self, v: T) -> Pin<Box<dyn Future<Output = T>>> {
    let mut g = self.gate.borrow_mut();
    let id = g.issued;
    g.issued += 1;
    g.outstanding.push(id);
    Box::pin(Gated { id, gate: self.gate.clone(), value: Some(v) })
  }
}

impl Loader for SchedLoader<'_> {
  fn max_redirects(&self) -> usize {
    self.inner.max_redirects
  }
  fn load(&self, specifier: &ModuleSpecifier, options: LoadOptions) -> LoadFuture {
    // record the call and compute the answer now; deliver it when released
    let fut = self.inner.load(specifier, options);
    let r = futures::executor::block_on(fut);
    self.gated(r)
  }
  fn ensure_cached(&self, specifier: &ModuleSpecifier, options: LoadOptions) -> EnsureCachedFuture {
    let fut = self.inner.ensure_cached(specifier, options);
    let r: Result<Option<CacheResponse>, _> = futures::executor::block_on(fut);
    self.gated(r)
  }
}

#[derive(Debug)]
pub enum RunOutcome {
  Done { shown: String, json: String, errors: Vec<String> },
  Deadlock,
  NonTermination,
  Panic(String),
}

/// Build under a schedule: `choices[k] % (#outstanding)` picks the load released at decision k;
/// `spurious` = extra polls without releasing anything. Returns the branching factors seen.
pub fn run_schedule(w: &World, ctx: &mut Ctx, choices: &[usize], spurious: usize) -> (RunOutcome, Vec<usize>) {
  let gate = Rc::new(RefCell::new(Gate::default()));
  let loader = SchedLoader { inner: ScriptedLoader::new(w), gate: gate.clone() };
  let mut graph = ModuleGraph::new(w.kind);
  let roots = w.roots.iter().map(|r| w.specs[*r].clone()).collect::<Vec<_>>();
  let mut factors = vec![];
  crate::watchdog::enter(w.describe());
  let res = std::panic::catch_unwind(std::panic::AssertUnwindSafe(|| {
    let waker = futures::task::noop_waker();
    let mut cx = Context::from_waker(&waker);
    let mut fut = Box::pin(graph.build(roots, referrer_imports(w), &loader, build_options(w, None)));
    let mut decision = 0usize;
    let mut polls = 0usize;
    loop {
      polls += 1;
      if polls > 20_000 {
        return Some("nonterm");
      }
      match fut.as_mut().poll(&mut cx) {
        Poll::Ready(()) => return None,
        Poll::Pending => {
          for _ in 0..spurious {
            if fut.as_mut().poll(&mut cx).is_ready() {
              return None;
            }
          }
          let pick = {
            let g = gate.borrow();
            let open: Vec<usize> = g.outstanding.iter().copied().filter(|i| !g.released.contains(i)).collect();
            if open.is_empty() {
              return Some("deadlock");
            }
            factors.push(open.len());
            let c = choices.get(decision).copied().unwrap_or(0);
            decision += 1;
            open[c % open.len()]
          };
          let waker = {
            let mut g = gate.borrow_mut();
            g.released.insert(pick);
            g.wakers.remove(&pick)
          };
          if let Some(wk) = waker {
            wk.wake();
          }
        }
      }
    }
  }));
  crate::watchdog::leave();
  let outcome = match res {
    Err(e) => {
      let m = panic_message(e);
      if m.contains(NONTERMINATION_MARKER) { RunOutcome::NonTermination } else { RunOutcome::Panic(m) }
    }
    Ok(Some("deadlock")) => RunOutcome::Deadlock,
    Ok(Some(_)) => RunOutcome::NonTermination,
    Ok(None) => {
      let log = loader.inner.log.borrow().clone();
      let shown = show_graph(ctx, &graph, &log);
      let json = serde_json::to_string(&graph).unwrap();
      let errors: Vec<String> = graph.module_errors().map(|e| e.to_string_with_range()).collect();
      RunOutcome::Done { shown, json, errors }
    }
  };
  (outcome, factors)
}

pub fn run(tier: &str, seed: u64) -> Report {
  let mut report = Report::new("C04");
  report.rule = "generated worlds (as C01) built with a loader whose futures complete only when the harness releases them: \
    the build future is polled by hand and after every Poll::Pending one outstanding load chosen by the schedule is released; \
    all completion orders are enumerated (odometer over the choice vector, capped per world), plus random schedules with \
    spurious polls, plus repeated runs of one schedule (fresh hasher state); every run must equal the first one in slots, \
    dependencies, redirects, error entries with referrers, serialised JSON and loader-call log, and equal the Lean model's \
    (schedule-free) result; non-trivial = distinct (world, max simultaneously outstanding loads) classes"
    .into();
  quiet_panics();
  let mut rng = Rng::new(seed ^ 0xC04);
  let n = if tier == "thorough" { 3000 } else { 260 };
  let cap = if tier == "thorough" { 400 } else { 60 };
  let mut batch = Batch::new();
  for wi in 0..n {
    let mut cfg = world_cfg(wi);
    cfg.max_items = 6;
    let mut wr = rng.fork();
    let w = gen_world(&mut wr, &cfg);
    let desc = json!({"world": w.describe(), "world_index": wi});
    batch.descs.push(desc.clone());
    let mut ctx = Ctx::default();
    let req = build_request(&mut ctx, &w, &w.roots, MODEL_FUEL);
    // reference run: always release the oldest outstanding load
    let (first, factors) = run_schedule(&w, &mut ctx, &[], 0);
    let (ref_shown, ref_json, ref_errors) = match first {
      RunOutcome::Done { shown, json, errors } => (shown, json, errors),
      other => {
        report.fail("oracle", "build-did-not-finish-under-schedule", format!("{:?}", other).chars().take(200).collect(), desc.clone());
        continue;
      }
    };
    batch.push(req.clone(), ref_shown.clone(), false);
    report.evaluations += 1;
    let max_open = factors.iter().copied().max().unwrap_or(0);
    report.count(&format!("max-outstanding:{}", max_open.min(8)));
    report.nontrivial.insert(format!("w{}-open{}", wi, max_open));
    if wi < 1 {
      report.sample(json!({"world": w.describe(), "branching_factors_of_reference_run": factors}));
    }
    // enumerate schedules: odometer over the choice vector
    let mut choices: Vec<usize> = vec![];
    let mut runs = 0usize;
    let mut check = |outcome: RunOutcome, what: String, report: &mut Report, batch: &mut Batch| match outcome {
      RunOutcome::Done { shown, json, errors } => {
        if shown != ref_shown || json != ref_json || errors != ref_errors {
          // also let the model see the deviating run
          batch.push(req.clone(), shown.clone(), false);
          let which = if shown != ref_shown { "slots/redirects/loader-log" } else if errors != ref_errors { "error entries" } else { "serialised graph" };
          report.fail(
            "oracle",
            "result-depends-on-completion-order",
            format!("{}: {} differ from the reference run\n  reference: {}\n  this run:  {}", what, which, ref_shown, shown),
            json!({"world": w.describe(), "schedule": what, "reference_errors": ref_errors, "errors": errors}),
          );
        }
      }
      other => report.fail("oracle", "build-did-not-finish-under-schedule", format!("{}: {:?}", what, other).chars().take(300).collect(), desc.clone()),
    };
    loop {
      let (outcome, fs) = run_schedule(&w, &mut ctx, &choices, 0);
      runs += 1;
      report.evaluations += 1;
      check(outcome, format!("choices {:?}", choices), &mut report, &mut batch);
      // next choice vector
      let mut v: Vec<usize> = (0..fs.len()).map(|k| choices.get(k).copied().unwrap_or(0) % fs[k].max(1)).collect();
      let mut k = v.len();
      let mut advanced = false;
      while k > 0 {
        k -= 1;
        if v[k] + 1 < fs[k] {
          v[k] += 1;
          v.truncate(k + 1);
          advanced = true;
          break;
        }
      }
      if !advanced || runs >= cap {
        if !advanced {
          report.count("worlds-with-all-completion-orders-enumerated");
        }
        break;
      }
      choices = v;
    }
    // random schedules with spurious polls
    for _ in 0..6 {
      let ch: Vec<usize> = (0..64).map(|_| rng.below(7)).collect();
      let sp = rng.below(3);
      let (outcome, _) = run_schedule(&w, &mut ctx, &ch, sp);
      report.evaluations += 1;
      check(outcome, format!("random choices, {} spurious polls", sp), &mut report, &mut batch);
    }
    // repeated runs (fresh hasher state per HashMap/HashSet)
    for _ in 0..4 {
      let (outcome, _) = run_schedule(&w, &mut ctx, &[], 0);
      report.evaluations += 1;
      check(outcome, "repeat of the reference schedule".into(), &mut report, &mut batch);
    }
    report.count_n("schedules-run", (runs + 10) as u64);
  }
  registry_schedules(&mut report, tier, &mut rng);
  batch.finish(&mut report, "C04");
  report
}

// ---------------------------------------------------------------------------------------------
// registry worlds under schedules

pub struct SchedRegLoader {
  pub inner: crate::registry::RegLoader,
  pub gate: Rc<RefCell<Gate>>,
}

impl SchedRegLoader {
  fn gated<T: Unpin + 'static>(&self, v: T) -> Pin<Box<dyn Future<Output = T>>> {
    let mut g = self.gate.borrow_mut();
    let id = g.issued;
    g.issued += 1;
    g.outstanding.push(id);
    Box::pin(Gated { id, gate: self.gate.clone(), value: Some(v) })
  }
}

impl Loader for SchedRegLoader {
  fn load(&self, specifier: &ModuleSpecifier, options: LoadOptions) -> LoadFuture {
    let r = futures::executor::block_on(self.inner.load(specifier, options));
    self.gated(r)
  }
  fn ensure_cached(&self, specifier: &ModuleSpecifier, options: LoadOptions) -> EnsureCachedFuture {
    let r: Result<Option<CacheResponse>, _> = futures::executor::block_on(self.inner.ensure_cached(specifier, options));
    self.gated(r)
  }
}

/// what a registry build is observed by: serialised graph (modules, dependencies, redirects, package
/// resolutions), error entries with referrers, lockfile writes, resolution events, set of loader calls
pub fn run_reg_schedule(w: &crate::registry::RegWorld, choices: &[usize], spurious: usize) -> (RunOutcome, Vec<usize>) {
  use crate::registry::*;
  let gate = Rc::new(RefCell::new(Gate::default()));
  let loader = SchedRegLoader { inner: RegLoader::new(w), gate: gate.clone() };
  let mut graph = ModuleGraph::new(w.kind);
  let roots: Vec<ModuleSpecifier> = w.roots.iter().map(|r| ModuleSpecifier::parse(r).unwrap()).collect();
  let reporter = RecReporter { resolved: std::sync::Mutex::new(vec![]), calls: loader.inner.calls.clone() };
  let mut locker = initial_locker(w);
  let resolver = version_resolver(w);
  let mut factors = vec![];
  crate::watchdog::enter(w.describe());
  let res = std::panic::catch_unwind(std::panic::AssertUnwindSafe(|| {
    let waker = futures::task::noop_waker();
    let mut cx = Context::from_waker(&waker);
    let options = deno_graph::BuildOptions {
      skip_dynamic_deps: w.skip_dynamic_deps,
      executor: &InlineExecutor,
      locker: locker.as_mut().map(|l| l as &mut dyn deno_graph::source::Locker),
      jsr_version_resolver: std::borrow::Cow::Borrowed(&resolver),
      passthrough_jsr_specifiers: w.passthrough,
      prefer_cached_jsr_versions: w.prefer_cached,
      reporter: Some(&reporter),
      ..Default::default()
    };
    let mut fut = Box::pin(graph.build(roots, vec![], &loader, options));
    let mut decision = 0usize;
    let mut polls = 0usize;
    loop {
      polls += 1;
      if polls > 20_000 {
        return Some("nonterm");
      }
      match fut.as_mut().poll(&mut cx) {
        Poll::Ready(()) => return None,
        Poll::Pending => {
          for _ in 0..spurious {
            if fut.as_mut().poll(&mut cx).is_ready() {
              return None;
            }
          }
          let pick = {
            let g = gate.borrow();
            let open: Vec<usize> = g.outstanding.iter().copied().filter(|i| !g.released.contains(i)).collect();
            if open.is_empty() {
              return Some("deadlock");
            }
            factors.push(open.len());
            let c = choices.get(decision).copied().unwrap_or(0);
            decision += 1;
            open[c % open.len()]
          };
          let waker = {
            let mut g = gate.borrow_mut();
            g.released.insert(pick);
            g.wakers.remove(&pick)
          };
          if let Some(wk) = waker {
            wk.wake();
          }
        }
      }
    }
  }));
  crate::watchdog::leave();
  let outcome = match res {
    Err(e) => {
      let m = panic_message(e);
      if m.contains(NONTERMINATION_MARKER) { RunOutcome::NonTermination } else { RunOutcome::Panic(m) }
    }
    Ok(Some("deadlock")) => RunOutcome::Deadlock,
    Ok(Some(_)) => RunOutcome::NonTermination,
    Ok(None) => {
      let json = serde_json::to_string(&graph).unwrap();
      let errors: Vec<String> = graph.module_errors().map(|e| e.to_string_with_range()).collect();
      let mut writes: Vec<String> = locker.as_ref().map(|l| l.calls.clone()).unwrap_or_default();
      writes.sort();
      writes.dedup();
      let events: Vec<String> = reporter.resolved.lock().unwrap().iter().map(|(_, r, n)| format!("{}=>{}", r, n)).collect();
      let mut pk: Vec<String> = vec![];
      for (nv, deps) in graph.packages.packages_with_deps() {
        let mut d: Vec<String> = deps.map(|d| d.to_string()).collect();
        d.sort();
        pk.push(format!("{}:{:?}:{:?}", nv, graph.packages.package_exports(nv), d));
      }
      // sizes make an unfilled (empty) source visible
      let sizes: Vec<String> = graph.modules().map(|m| format!("{}#{}", m.specifier(), match m { deno_graph::Module::Js(j) => j.source.text.len(), deno_graph::Module::Json(j) => j.source.text.len(), _ => 0 })).collect();
      // which loads were asked for (with which cache setting and checksum) does not depend on the order in
      // which they complete; the order of the calls may
      let mut asked: Vec<String> = loader.inner.log.borrow().iter().map(|c| format!("{} {} {}", c.specifier, c.cache_setting, c.checksum.clone().unwrap_or_default())).collect();
      asked.sort();
      let shown = format!("writes={:?} events={:?} packages={:?} sizes={:?} asked={:?}", writes, events, pk, sizes, asked);
      RunOutcome::Done { shown, json, errors }
    }
  };
  (outcome, factors)
}

/// a package with more matching versions than any fixed probing bound, one of them cached
fn many_versions_world(n: usize, cached_one: usize) -> crate::registry::RegWorld {
  use crate::registry::*;
  let versions: Vec<RegVer> = (0..n)
    .map(|i| RegVer {
      version: format!("1.0.{}", i),
      yanked: false,
      created_day: None,
      exports: ExportsDesc::Str("./mod.ts".into()),
      files: vec![RegFile { path: "/mod.ts".into(), items: vec![], raw: None, manifest: ManifestEntry::Ok, fault: Fault::None, tampered_cache: false }],
      mg: MgKind::None,
      fault: Fault::None,
      lockfile_checksum: None,
    })
    .collect();
  let mut cached = std::collections::BTreeSet::new();
  cached.insert(ver_meta_url("@s/a", &format!("1.0.{}", cached_one)));
  RegWorld {
    pkgs: vec![RegPkg { name: "@s/a".into(), versions, fault: Fault::None, stale: None }],
    user: vec![UserFile { url: "file:///main.ts".into(), items: vec![crate::world::Item { form: Form::Namespace, text: "jsr:@s/a@1".into() }] }],
    roots: vec!["file:///main.ts".into()],
    kind: deno_graph::GraphKind::All,
    prefer_cached: true,
    passthrough: false,
    skip_dynamic_deps: false,
    cutoff_day: None,
    excl: vec![],
    excl_prefixes: vec![],
    cached,
    has_locker: false,
    lock_manifests: vec![],
    lock_remote: vec![],
    seeds: vec![],
  }
}

/// one package whose version manifest carries module-graph information for more modules than any
/// plausible bound on simultaneously outstanding content loads; some of its files fail to load and
/// are imported again, with import attributes, by modules visited late
/// how two finished runs differ: in what the statement lists (an oracle failure), or only in which
/// loads were asked for (the model proves the loader log schedule-independent: a correspondence failure)
fn run_difference(shown: &str, ref_shown: &str, json: &str, ref_json: &str, errors: &[String], ref_errors: &[String]) -> Option<(&'static str, &'static str)> {
  let split = |x: &str| -> (String, String) { x.rsplit_once(" asked=").map(|(a, b)| (a.to_string(), b.to_string())).unwrap_or((x.to_string(), String::new())) };
  let (a, qa) = split(shown);
  let (b, qb) = split(ref_shown);
  if a != b || json != ref_json || errors != ref_errors {
    Some(("oracle", "result-depends-on-completion-order"))
  } else if qa != qb {
    Some(("correspondence", "loads-asked-depend-on-completion-order"))
  } else {
    None
  }
}

fn wide_package_world(rng: &mut Rng, n: usize) -> crate::registry::RegWorld {
  use crate::registry::*;
  use crate::world::Item;
  let bad: Vec<usize> = (0..1 + rng.below(3)).map(|_| rng.below(n)).collect();
  let mut files = vec![];
  let mut root_items = vec![];
  for i in 0..n {
    root_items.push(Item { form: Form::Namespace, text: format!("./f{}.ts", i) });
    let mut items = vec![];
    for _ in 0..rng.below(3) {
      let t = rng.below(n);
      items.push(Item { form: if rng.chance(1, 4) { Form::Dynamic } else { Form::Namespace }, text: format!("./f{}.ts", t) });
    }
    if rng.chance(1, 6) {
      items.push(Item { form: Form::Namespace, text: format!("./gone{}.ts", i) });
    }
    // the modules visited last refer to the failing ones again, in another way
    if i + 6 >= n || rng.chance(1, 8) {
      let b = bad[rng.below(bad.len())];
      let form = match rng.below(3) {
        0 => Form::With("text".into()),
        1 => Form::With("json".into()),
        _ => Form::Dynamic,
      };
      items.push(Item { form, text: format!("./f{}.ts", b) });
    }
    let fault = if bad.contains(&i) { if rng.chance(1, 2) { Fault::Missing } else { Fault::Error } } else { Fault::None };
    files.push(RegFile { path: format!("/f{}.ts", i), items, raw: None, manifest: ManifestEntry::Ok, fault, tampered_cache: false });
  }
  files.insert(0, RegFile { path: "/mod.ts".into(), items: root_items, raw: None, manifest: ManifestEntry::Ok, fault: Fault::None, tampered_cache: false });
  RegWorld {
    pkgs: vec![RegPkg {
      name: "@s/a".into(),
      versions: vec![RegVer {
        version: "1.0.0".into(),
        yanked: false,
        created_day: None,
        exports: ExportsDesc::Str("./mod.ts".into()),
        files,
        mg: MgKind::V2,
        fault: Fault::None,
        lockfile_checksum: None,
      }],
      fault: Fault::None,
      stale: None,
    }],
    user: vec![UserFile { url: "file:///main.ts".into(), items: vec![Item { form: Form::Namespace, text: "jsr:@s/a@1".into() }] }],
    roots: vec!["file:///main.ts".into()],
    kind: deno_graph::GraphKind::All,
    prefer_cached: false,
    passthrough: false,
    skip_dynamic_deps: false,
    cutoff_day: None,
    excl: vec![],
    excl_prefixes: vec![],
    cached: std::collections::BTreeSet::new(),
    has_locker: false,
    lock_manifests: vec![],
    lock_remote: vec![],
    seeds: vec![],
  }
}

fn registry_schedules(report: &mut Report, tier: &str, rng: &mut Rng) {
  use crate::registry::*;
  // wide packages: many content loads outstanding at once
  for k in 0..(if tier == "thorough" { 30 } else { 5 }) {
    let mut wr = rng.fork();
    let nfiles = 36 + wr.below(14);
    let w = wide_package_world(&mut wr, nfiles);
    let (first, factors) = run_reg_schedule(&w, &[], 0);
    let RunOutcome::Done { shown: s0, json: j0, errors: e0 } = first else {
      report.fail("oracle", "build-did-not-finish-under-schedule", format!("wide package world: {:?}", first).chars().take(300).collect(), w.describe());
      continue;
    };
    let max_open = factors.iter().copied().max().unwrap_or(0);
    report.count(&format!("registry:wide-package:max-outstanding>32:{}", max_open > 32));
    let reps = if tier == "thorough" { 40 } else { 12 };
    for r in 0..reps {
      // last-in-first-out, first-in-first-out with a few stragglers, and random orders
      let ch: Vec<usize> = match r % 3 {
        0 => (0..4000).map(|_| rng.below(64)).collect(),
        1 => (0..4000).map(|_| 1_000_003).collect(),
        _ => (0..4000).map(|i| if i % 7 == 0 { rng.below(5) } else { 1 }).collect(),
      };
      let (o, _) = run_reg_schedule(&w, &ch, r % 2);
      report.evaluations += 1;
      match o {
        RunOutcome::Done { shown, json, errors } => {
          if let Some((kind, shape)) = run_difference(&shown, &s0, &json, &j0, &errors, &e0) {
            report.fail(
              kind,
              shape,
              format!("wide package ({} outstanding loads at most), schedule {}: differs from the reference run\n  reference errors: {:?}\n  this run:         {:?}", max_open, r, e0, errors),
              json!({"registry_world": w.describe(), "schedule_kind": r % 3}),
            );
            break;
          }
        }
        other => report.fail("oracle", "build-did-not-finish-under-schedule", format!("wide package world: {:?}", other).chars().take(300).collect(), w.describe()),
      }
    }
    report.nontrivial.insert(format!("wide-package/{}", k));
  }
  // repeated runs with fresh hasher state: a registry map with many versions
  for (n, c) in [(24usize, 3usize), (40, 17), (20, 0)] {
    let w = many_versions_world(n, c);
    let (first, _) = run_reg_schedule(&w, &[], 0);
    let RunOutcome::Done { shown: s0, json: j0, .. } = first else {
      report.fail("oracle", "build-did-not-finish-under-schedule", "many-versions world".into(), w.describe());
      continue;
    };
    if !j0.contains(&format!("@s/a@1.0.{}", c)) {
      report.fail("oracle", "graph-level-wrong-version-selected", format!("prefer-cached with only 1.0.{} cached among {} versions: {}", c, n, j0.chars().take(300).collect::<String>()), w.describe());
    }
    let reps = if tier == "thorough" { 200 } else { 30 };
    for r in 0..reps {
      let ch: Vec<usize> = (0..64).map(|_| rng.below(5)).collect();
      let (o, _) = run_reg_schedule(&w, if r % 2 == 0 { &[] } else { &ch }, 0);
      report.evaluations += 1;
      match o {
        RunOutcome::Done { shown, json, .. } => {
          if let Some((kind, _)) = run_difference(&shown, &s0, &json, &j0, &[], &[]) {
            report.fail(kind, if kind == "oracle" { "result-differs-between-runs" } else { "loads-asked-differ-between-runs" }, format!("{} versions, 1.0.{} cached: run {} differs from the first run\n  first: {}\n  now:   {}", n, c, r, s0, shown), w.describe());
            break;
          }
        }
        other => report.fail("oracle", "build-did-not-finish-under-schedule", format!("{:?}", other).chars().take(200).collect(), w.describe()),
      }
    }
    report.nontrivial.insert(format!("many-versions/{}", n));
  }
  let n = if tier == "thorough" { 1500 } else { 160 };
  let cap = if tier == "thorough" { 300 } else { 40 };
  for wi in 0..n {
    let mut wr = rng.fork();
    let cfg = RegCfg { faults: wi % 3 == 2, n_pkgs: 2, max_versions: 3, ..Default::default() };
    let mut w = gen_reg_world(&mut wr, &cfg);
    if wi % 2 == 0 {
      // module information embedded, cold cache: package files arrive through deferred content loads
      for p in w.pkgs.iter_mut() {
        for v in p.versions.iter_mut() {
          v.mg = MgKind::V2;
        }
      }
      w.cached.retain(|u| u.ends_with("meta.json"));
    }
    if wi % 4 == 3 || wi % 4 == 1 {
      // inside a package: a sibling imports a module with an attribute type that is not enabled,
      // turning that module's entry into an error while its content load may be outstanding
      let it = |form: Form, text: &str| crate::world::Item { form, text: text.to_string() };
      for p in w.pkgs.iter_mut() {
        for v in p.versions.iter_mut() {
          if v.files.iter().any(|f| f.path == "/c.ts") {
            continue;
          }
          let mk = |path: &str, items: Vec<crate::world::Item>| RegFile { path: path.into(), items, raw: None, manifest: ManifestEntry::Ok, fault: Fault::None, tampered_cache: false };
          if !v.files.iter().any(|f| f.path == "/util.ts") {
            v.files.push(mk("/util.ts", vec![]));
          }
          v.files.push(mk("/c.ts", vec![it(Form::With("text".into()), "./util.ts")]));
          v.files.push(mk("/d.ts", vec![]));
          v.files.push(mk("/e.ts", vec![]));
          if let Some(m) = v.files.iter_mut().find(|f| f.path == "/mod.ts") {
            m.items.insert(0, it(Form::Namespace, "./util.ts"));
            m.items.push(it(Form::Namespace, "./c.ts"));
            m.items.push(it(Form::Namespace, "./d.ts"));
            m.items.push(it(Form::Namespace, "./e.ts"));
          }
        }
      }
    }
    if wi % 4 == 1 {
      // an entry overwritten by an error while its content load is outstanding
      if let Some(u) = w.user.first_mut() {
        u.items.push(crate::world::Item { form: Form::With("text".into()), text: "jsr:@s/a/sub".into() });
        u.items.push(crate::world::Item { form: Form::Namespace, text: "jsr:@s/a/sub".into() });
      }
    }
    let desc = json!({"registry_world": w.describe(), "world_index": wi});
    let (first, factors) = run_reg_schedule(&w, &[], 0);
    let (ref_shown, ref_json, ref_errors) = match first {
      RunOutcome::Done { shown, json, errors } => (shown, json, errors),
      other => {
        report.fail("oracle", "build-did-not-finish-under-schedule", format!("registry world: {:?}", other).chars().take(200).collect(), desc.clone());
        continue;
      }
    };
    report.evaluations += 1;
    let max_open = factors.iter().copied().max().unwrap_or(0);
    report.count(&format!("registry:max-outstanding:{}", max_open.min(8)));
    report.nontrivial.insert(format!("reg{}-open{}", wi, max_open));
    let mut check = |outcome: RunOutcome, what: String, report: &mut Report| match outcome {
      RunOutcome::Done { shown, json, errors } => {
        if let Some((kind, shape)) = run_difference(&shown, &ref_shown, &json, &ref_json, &errors, &ref_errors) {
          let which = if json != ref_json { "serialised graph" } else if errors != ref_errors { "error entries" } else { "lockfile writes / resolution events / package table / source sizes / loads asked for" };
          report.fail(
            kind,
            shape,
            format!("registry world, {}: {} differ from the reference run\n  reference: {}\n  this run:  {}", what, which, ref_shown, shown),
            json!({"registry_world": w.describe(), "schedule": what, "reference_errors": ref_errors, "errors": errors}),
          );
        }
      }
      other => report.fail("oracle", "build-did-not-finish-under-schedule", format!("registry world, {}: {:?}", what, other).chars().take(300).collect(), desc.clone()),
    };
    let mut choices: Vec<usize> = vec![];
    let mut runs = 0usize;
    loop {
      let (outcome, fs) = run_reg_schedule(&w, &choices, 0);
      runs += 1;
      report.evaluations += 1;
      check(outcome, format!("choices {:?}", choices), report);
      let mut v: Vec<usize> = (0..fs.len()).map(|k| choices.get(k).copied().unwrap_or(0) % fs[k].max(1)).collect();
      let mut k = v.len();
      let mut advanced = false;
      while k > 0 {
        k -= 1;
        if v[k] + 1 < fs[k] {
          v[k] += 1;
          v.truncate(k + 1);
          advanced = true;
          break;
        }
      }
      if !advanced || runs >= cap {
        if !advanced {
          report.count("registry:worlds-with-all-completion-orders-enumerated");
        }
        break;
      }
      choices = v;
    }
    for _ in 0..8 {
      let ch: Vec<usize> = (0..96).map(|_| rng.below(7)).collect();
      let sp = rng.below(3);
      let (outcome, _) = run_reg_schedule(&w, &ch, sp);
      report.evaluations += 1;
      check(outcome, format!("random choices {:?}.., {} spurious polls", &ch[..8], sp), report);
    }
    for _ in 0..4 {
      let (outcome, _) = run_reg_schedule(&w, &[], 0);
      report.evaluations += 1;
      check(outcome, "repeat of the reference schedule".into(), report);
    }
    report.count_n("registry:schedules-run", (runs + 12) as u64);
  }
}
