//! C04 — build results do not depend on load completion order or on the run.
use crate::absworld::*;
use crate::build::*;
use crate::c01::MODEL_FUEL;
use crate::c01::world_cfg;
use crate::dump::Ctx;
use crate::report::*;
use crate::rng::Rng;
use crate::walkprops::Batch;
use crate::world::*;
use deno_graph::ModuleGraph;
use deno_graph::ModuleSpecifier;
use deno_graph::source::CacheResponse;
use deno_graph::source::EnsureCachedFuture;
use deno_graph::source::LoadFuture;
use deno_graph::source::LoadOptions;
use deno_graph::source::LoadResponse;
use deno_graph::source::Loader;
use serde_json::json;
use std::cell::RefCell;
use std::collections::HashSet;
use std::future::Future;
use std::pin::Pin;
use std::rc::Rc;
use std::task::Context;
use std::task::Poll;

#[derive(Default)]
pub struct Gate {
  pub issued: usize,
  pub released: HashSet<usize>,
  pub outstanding: Vec<usize>,
  pub wakers: std::collections::HashMap<usize, std::task::Waker>,
}

/// a future that is ready once its id has been released
struct Gated<T> {
  id: usize,
  gate: Rc<RefCell<Gate>>,
  value: Option<T>,
}

impl<T: Unpin> Future for Gated<T> {
  type Output = T;
  fn poll(mut self: Pin<&mut Self>, cx: &mut Context<'_>) -> Poll<T> {
    if self.gate.borrow().released.contains(&self.id) {
      let id = self.id;
      self.gate.borrow_mut().outstanding.retain(|x| *x != id);
      Poll::Ready(self.value.take().unwrap())
    } else {
      let id = self.id;
      self.gate.borrow_mut().wakers.insert(id, cx.waker().clone());
      Poll::Pending
    }
  }
}

pub struct SchedLoader<'w> {
  pub inner: ScriptedLoader<'w>,
  pub gate: Rc<RefCell<Gate>>,
}

impl SchedLoader<'_> {
  fn gated<T: Unpin + 'static>(&self, v: T) -> Pin<Box<dyn Future<Output = T>>> {
    let mut g = self.gate.borrow_mut();
    let id = g.issued;
    g.issued += 1;
    g.outstanding.push(id);
    Box::pin(Gated { id, gate: self.gate.clone(), value: Some(v) })
  }
}

impl Loader for SchedLoader<'_> {
  fn max_redirects(&self) -> usize {
    self.inner.max_redirects
  }
  fn load(&self, specifier: &ModuleSpecifier, options: LoadOptions) -> LoadFuture {
    // record the call and compute the answer now; deliver it when released
    let fut = self.inner.load(specifier, options);
    let r = futures::executor::block_on(fut);
    self.gated(r)
  }
  fn ensure_cached(&self, specifier: &ModuleSpecifier, options: LoadOptions) -> EnsureCachedFuture {
    let fut = self.inner.ensure_cached(specifier, options);
    let r: Result<Option<CacheResponse>, _> = futures::executor::block_on(fut);
    self.gated(r)
  }
}

#[derive(Debug)]
pub enum RunOutcome {
  Done { shown: String, json: String, errors: Vec<String> },
  Deadlock,
  NonTermination,
  Panic(String),
}

/// Build under a schedule: `choices[k] % (#outstanding)` picks the load released at decision k;
/// `spurious` = extra polls without releasing anything. Returns the branching factors seen.
pub fn run_schedule(w: &World, ctx: &mut Ctx, choices: &[usize], spurious: usize) -> (RunOutcome, Vec<usize>) {
  let gate = Rc::new(RefCell::new(Gate::default()));
  let loader = SchedLoader { inner: ScriptedLoader::new(w), gate: gate.clone() };
  let mut graph = ModuleGraph::new(w.kind);
  let roots = w.roots.iter().map(|r| w.specs[*r].clone()).collect::<Vec<_>>();
  let mut factors = vec![];
  crate::watchdog::enter(w.describe());
  let res = std::panic::catch_unwind(std::panic::AssertUnwindSafe(|| {
    let waker = futures::task::noop_waker();
    let mut cx = Context::from_waker(&waker);
    let mut fut = Box::pin(graph.build(roots, referrer_imports(w), &loader, build_options(w, None)));
    let mut decision = 0usize;
    let mut polls = 0usize;
    loop {
      polls += 1;
      if polls > 20_000 {
        return Some("nonterm");
      }
      match fut.as_mut().poll(&mut cx) {
        Poll::Ready(()) => return None,
        Poll::Pending => {
          for _ in 0..spurious {
            if fut.as_mut().poll(&mut cx).is_ready() {
              return None;
            }
          }
          let pick = {
            let g = gate.borrow();
            let open: Vec<usize> = g.outstanding.iter().copied().filter(|i| !g.released.contains(i)).collect();
            if open.is_empty() {
              return Some("deadlock");
            }
            factors.push(open.len());
            let c = choices.get(decision).copied().unwrap_or(0);
            decision += 1;
            open[c % open.len()]
          };
          let waker = {
            let mut g = gate.borrow_mut();
            g.released.insert(pick);
            g.wakers.remove(&pick)
          };
          if let Some(wk) = waker {
            wk.wake();
          }
        }
      }
    }
  }));
  crate::watchdog::leave();
  let outcome = match res {
    Err(e) => {
      let m = panic_message(e);
      if m.contains(NONTERMINATION_MARKER) { RunOutcome::NonTermination } else { RunOutcome::Panic(m) }
    }
    Ok(Some("deadlock")) => RunOutcome::Deadlock,
    Ok(Some(_)) => RunOutcome::NonTermination,
    Ok(None) => {
      let log = loader.inner.log.borrow().clone();
      let shown = show_graph(ctx, &graph, &log);
      let json = serde_json::to_string(&graph).unwrap();
      let errors: Vec<String> = graph.module_errors().map(|e| e.to_string_with_range()).collect();
      RunOutcome::Done { shown, json, errors }
    }
  };
  (outcome, factors)
}

pub fn run(tier: &str, seed: u64) -> Report {
  let mut report = Report::new("C04");
  report.rule = "generated worlds (as C01) built with a loader whose futures complete only when the harness releases them: \
    the build future is polled by hand and after every Poll::Pending one outstanding load chosen by the schedule is released; \
    all completion orders are enumerated (odometer over the choice vector, capped per world), plus random schedules with \
    spurious polls, plus repeated runs of one schedule (fresh hasher state); every run must equal the first one in slots, \
    dependencies, redirects, error entries with referrers, serialised JSON and loader-call log, and equal the Lean model's \
    (schedule-free) result; non-trivial = distinct (world, max simultaneously outstanding loads) classes"
    .into();
  quiet_panics();
  let mut rng = Rng::new(seed ^ 0xC04);
  let n = if tier == "thorough" { 3000 } else { 260 };
  let cap = if tier == "thorough" { 400 } else { 60 };
  let mut batch = Batch::new();
  for wi in 0..n {
    let mut cfg = world_cfg(wi);
    cfg.max_items = 6;
    let mut wr = rng.fork();
    let w = gen_world(&mut wr, &cfg);
    let desc = json!({"world": w.describe(), "world_index": wi});
    batch.descs.push(desc.clone());
    let mut ctx = Ctx::default();
    let req = build_request(&mut ctx, &w, &w.roots, MODEL_FUEL);
    // reference run: always release the oldest outstanding load
    let (first, factors) = run_schedule(&w, &mut ctx, &[], 0);
    let (ref_shown, ref_json, ref_errors) = match first {
      RunOutcome::Done { shown, json, errors } => (shown, json, errors),
      other => {
        report.fail("oracle", "build-did-not-finish-under-schedule", format!("{:?}", other).chars().take(200).collect(), desc.clone());
        continue;
      }
    };
    batch.push(req.clone(), ref_shown.clone(), false);
    report.evaluations += 1;
    let max_open = factors.iter().copied().max().unwrap_or(0);
    report.count(&format!("max-outstanding:{}", max_open.min(8)));
    report.nontrivial.insert(format!("w{}-open{}", wi, max_open));
    if wi < 1 {
      report.sample(json!({"world": w.describe(), "branching_factors_of_reference_run": factors}));
    }
    // enumerate schedules: odometer over the choice vector
    let mut choices: Vec<usize> = vec![];
    let mut runs = 0usize;
    let mut check = |outcome: RunOutcome, what: String, report: &mut Report, batch: &mut Batch| match outcome {
      RunOutcome::Done { shown, json, errors } => {
        if shown != ref_shown || json != ref_json || errors != ref_errors {
          // also let the model see the deviating run
          batch.push(req.clone(), shown.clone(), false);
          let which = if shown != ref_shown { "slots/redirects/loader-log" } else if errors != ref_errors { "error entries" } else { "serialised graph" };
          report.fail(
            "oracle",
            "result-depends-on-completion-order",
            format!("{}: {} differ from the reference run\n  reference: {}\n  this run:  {}", what, which, ref_shown, shown),
            json!({"world": w.describe(), "schedule": what, "reference_errors": ref_errors, "errors": errors}),
          );
        }
      }
      other => report.fail("oracle", "build-did-not-finish-under-schedule", format!("{}: {:?}", what, other).chars().take(300).collect(), desc.clone()),
    };
    loop {
      let (outcome, fs) = run_schedule(&w, &mut ctx, &choices, 0);
      runs += 1;
      report.evaluations += 1;
      check(outcome, format!("choices {:?}", choices), &mut report, &mut batch);
      // next choice vector
      let mut v: Vec<usize> = (0..fs.len()).map(|k| choices.get(k).copied().unwrap_or(0) % fs[k].max(1)).collect();
      let mut k = v.len();
      let mut advanced = false;
      while k > 0 {
        k -= 1;
        if v[k] + 1 < fs[k] {
          v[k] += 1;
          v.truncate(k + 1);
          advanced = true;
          break;
        }
      }
      if !advanced || runs >= cap {
        if !advanced {
          report.count("worlds-with-all-completion-orders-enumerated");
        }
        break;
      }
      choices = v;
    }
    // random schedules with spurious polls
    for _ in 0..6 {
      let ch: Vec<usize> = (0..64).map(|_| rng.below(7)).collect();
      let sp = rng.below(3);
      let (outcome, _) = run_schedule(&w, &mut ctx, &ch, sp);
      report.evaluations += 1;
      check(outcome, format!("random choices, {} spurious polls", sp), &mut report, &mut batch);
    }
    // repeated runs (fresh hasher state per HashMap/HashSet)
    for _ in 0..4 {
      let (outcome, _) = run_schedule(&w, &mut ctx, &[], 0);
      report.evaluations += 1;
      check(outcome, "repeat of the reference schedule".into(), &mut report, &mut batch);
    }
    report.count_n("schedules-run", (runs + 10) as u64);
  }
  batch.finish(&mut report, "C04");
  report
}
