//! From module information to recorded dependencies: `parse_module` with an analyser that hands
//! back a generated `ModuleInfo`, against the Lean model `DG/Deps.lean` (part of C08 / C01).
use crate::c13::gen_info;
use crate::c13::json_sexp;
use crate::report::*;
use crate::rng::Rng;
use crate::walkprops::Batch;
use deno_graph::GraphKind;
use deno_graph::Module;
use deno_graph::ModuleSpecifier;
use deno_graph::Resolution;
use deno_graph::analysis::DependencyDescriptor;
use deno_graph::analysis::DynamicArgument;
use deno_graph::analysis::ModuleAnalyzer;
use deno_graph::analysis::ModuleInfo;
use deno_graph::analysis::TypeScriptReference;
use deno_graph::source::JsrUrlProvider;
use serde_json::json;
use std::collections::BTreeSet;
use std::collections::HashMap;
use std::sync::Arc;

struct StubAnalyzer(ModuleInfo);

#[async_trait::async_trait(?Send)]
impl ModuleAnalyzer for StubAnalyzer {
  async fn analyze(&self, _specifier: &ModuleSpecifier, _source: Arc<str>, _media_type: deno_graph::MediaType) -> Result<ModuleInfo, deno_error::JsErrorBox> {
    Ok(self.0.clone())
  }
}

fn res(r: &Resolution, intern: &mut Vec<String>) -> String {
  match r {
    Resolution::None => "-".into(),
    Resolution::Ok(ok) => {
      let s = ok.specifier.to_string();
      let i = intern.iter().position(|x| *x == s).unwrap_or_else(|| {
        intern.push(s);
        intern.len() - 1
      });
      format!("ok{}", i)
    }
    Resolution::Err(_) => "err".into(),
  }
}

fn kind_s(k: &deno_graph::ImportKind) -> &'static str {
  use deno_graph::ImportKind::*;
  match k {
    Es => "es",
    EsSource => "src",
    Require => "req",
    TsType => "type",
    TsModuleAugmentation => "aug",
    TsReferencePath => "refpath",
    TsReferenceTypes => "reftypes",
    JsxImportSource => "jsx",
    JsDoc => "jsdoc",
  }
}

/// every text the model may ask the resolver about
fn texts(info: &ModuleInfo, header: &Option<String>) -> BTreeSet<String> {
  let mut t = BTreeSet::new();
  for d in &info.dependencies {
    match d {
      DependencyDescriptor::Static(s) => {
        t.insert(s.specifier.clone());
        if let Some(ts) = &s.types_specifier {
          t.insert(ts.text.clone());
        }
      }
      DependencyDescriptor::Dynamic(d) => {
        if let DynamicArgument::String(s) = &d.argument {
          t.insert(s.clone());
        }
        if let Some(ts) = &d.types_specifier {
          t.insert(ts.text.clone());
        }
      }
    }
  }
  for r in &info.ts_references {
    match r {
      TypeScriptReference::Path(s) => t.insert(s.text.clone()),
      TypeScriptReference::Types { specifier, .. } => t.insert(specifier.text.clone()),
    };
  }
  for s in [&info.self_types_specifier, &info.source_map_url].into_iter().flatten() {
    t.insert(s.text.clone());
  }
  for s in [&info.jsx_import_source, &info.jsx_import_source_types].into_iter().flatten() {
    t.insert(format!("{}/jsx-runtime", s.text));
  }
  for j in &info.jsdoc_imports {
    t.insert(j.specifier.text.clone());
  }
  if let Some(h) = header {
    t.insert(h.clone());
  }
  t
}

fn atom_safe(s: &str) -> bool {
  !s.chars().any(|c| c.is_whitespace() || c == '(' || c == ')' || c == '"' || c == ';' || c == '|' || c == ',')
}

pub fn deps_part(report: &mut Report, batch: &mut Batch, rng: &mut Rng, n: usize) {
  const REFERRERS: &[&str] = &[
    "file:///w/mod.ts",
    "file:///w/mod.js",
    "file:///w/mod.tsx",
    "file:///w/mod.jsx",
    "file:///w/mod.d.ts",
    "https://x.test/w/mod.mts",
    "https://x.test/w/mod.mjs",
    "https://jsr.io/@std/path/1.0.0/mod.ts",
  ];
  const HEADERS: &[Option<&str>] = &[None, None, Some("./types.d.ts"), Some("https://jsr.io/@std/path/1.0.0/t.d.ts"), Some("")];
  for i in 0..n {
    let info = gen_info(rng);
    let referrer = ModuleSpecifier::parse(REFERRERS[rng.below(REFERRERS.len())]).unwrap();
    let kind = [GraphKind::All, GraphKind::CodeOnly, GraphKind::TypesOnly][i % 3];
    let header: Option<String> = HEADERS[rng.below(HEADERS.len())].map(|s| s.to_string());
    let replay = json!({"module_info": serde_json::to_value(&info).unwrap(), "referrer": referrer.as_str(), "graph_kind": format!("{:?}", kind), "x_typescript_types": header});
    batch.descs.push(replay.clone());
    report.evaluations += 1;
    let Some(info_sexp) = json_sexp(&serde_json::to_value(&info).unwrap()) else { continue };
    let all_texts = texts(&info, &header);
    if !all_texts.iter().all(|t| atom_safe(t)) {
      continue;
    }
    let analyzer = StubAnalyzer(info.clone());
    let headers: Option<HashMap<String, String>> = header.as_ref().map(|h| [("x-typescript-types".to_string(), h.clone())].into_iter().collect());
    let provider = deno_graph::source::DefaultJsrUrlProvider;
    let module = crate::build::block_on(deno_graph::parse_module(deno_graph::ParseModuleOptions {
      graph_kind: kind,
      specifier: referrer.clone(),
      maybe_headers: headers,
      mtime: None,
      content: Arc::from(&b""[..]),
      file_system: &deno_graph::source::NullFileSystem,
      jsr_url_provider: &provider,
      maybe_resolver: None,
      module_analyzer: &analyzer,
    }));
    let Ok(Module::Js(js)) = module else {
      report.fail("oracle", "parse-module-failed-on-generated-module-info", format!("{:?}", module.err().map(|e| e.to_string())), replay.clone());
      continue;
    };
    // resolution tables over the same interning as the implementation's answers
    let mut intern: Vec<String> = vec![];
    let mut resc = vec![];
    let mut rest = vec![];
    let referrer_nv = provider.package_url_to_nv(&referrer);
    for t in &all_texts {
      match deno_graph::resolve_import(t, &referrer) {
        Ok(u) => {
          let s = u.to_string();
          let id = intern.iter().position(|x| *x == s).unwrap_or_else(|| {
            intern.push(s);
            intern.len() - 1
          });
          resc.push(format!("(s:{} {})", t, id));
          // types resolution rejects https imports into another jsr package
          let nv = provider.package_url_to_nv(&u);
          if nv.is_some() && nv != referrer_nv {
            rest.push(format!("(s:{} err)", t));
          } else {
            rest.push(format!("(s:{} {})", t, id));
          }
        }
        Err(_) => {
          resc.push(format!("(s:{} err)", t));
          rest.push(format!("(s:{} err)", t));
        }
      }
    }
    let mt = js.media_type;
    let req = format!(
      "(mod-deps {} {} {} {} {} (resc {}) (rest {}) {})",
      kind.include_types() as u8,
      mt.is_declaration() as u8,
      mt.is_typed() as u8,
      mt.is_jsx() as u8,
      header.as_ref().map(|h| format!("s:{}", h)).unwrap_or("-".into()),
      resc.join(" "),
      rest.join(" "),
      info_sexp
    );
    let mut parts = vec![];
    for (text, d) in &js.dependencies {
      parts.push(format!(
        "{}|{}|{}|{}|{}|{}|{}",
        text,
        res(&d.maybe_code, &mut intern),
        res(&d.maybe_type, &mut intern),
        if d.is_dynamic { "dyn" } else { "static" },
        d.maybe_attribute_type.clone().unwrap_or("-".into()),
        d.maybe_deno_types_specifier.clone().unwrap_or("-".into()),
        d.imports.iter().map(|i| format!("{}{}", kind_s(&i.kind), if i.is_dynamic { "!" } else { "" })).collect::<Vec<_>>().join(",")
      ));
    }
    let imp = format!(
      "{} ;; types={} ;; map={}",
      parts.join(" ; "),
      js.maybe_types_dependency.as_ref().map(|t| format!("{}|{}", t.specifier, res(&t.dependency, &mut intern))).unwrap_or("-".into()),
      js.maybe_source_map_dependency.as_ref().map(|t| format!("{}|{}", t.specifier, res(&t.dependency, &mut intern))).unwrap_or("-".into())
    );
    batch.push(req, imp, false);
    // statement-level oracles on the implementation
    let keys: BTreeSet<&String> = js.dependencies.keys().collect();
    if keys.len() != js.dependencies.len() {
      report.fail("oracle", "dependency-listed-twice", referrer.to_string(), replay.clone());
    }
    for (text, d) in &js.dependencies {
      let code_imports: Vec<&deno_graph::Import> = d
        .imports
        .iter()
        .filter(|i| matches!(i.kind, deno_graph::ImportKind::Es | deno_graph::ImportKind::EsSource | deno_graph::ImportKind::Require | deno_graph::ImportKind::JsxImportSource))
        .collect();
      if d.is_dynamic && code_imports.iter().any(|i| !i.is_dynamic) {
        report.fail("oracle", "static-does-not-win", format!("{:?}: dynamic although a static code import exists", text), replay.clone());
      }
      if d.imports.is_empty() {
        report.fail("oracle", "dependency-without-import", format!("{:?}", text), replay.clone());
      }
      if !kind.include_types() && (!matches!(d.maybe_type, Resolution::None) || d.imports.iter().any(|i| matches!(i.kind, deno_graph::ImportKind::TsType | deno_graph::ImportKind::JsDoc | deno_graph::ImportKind::TsReferencePath | deno_graph::ImportKind::TsReferenceTypes | deno_graph::ImportKind::TsModuleAugmentation))) {
        report.fail("oracle", "type-side-in-code-only-analysis", format!("{:?}", text), replay.clone());
      }
    }
    // every `/// <reference path>` of the module information is a dependency of the module (a types
    // reference may be ignored when the module already has a types dependency; a path reference never is)
    if kind.include_types() {
      for r in &info.ts_references {
        if let TypeScriptReference::Path(sp) = r {
          let ok = js.dependencies.get(&sp.text).map(|d| d.imports.iter().any(|i| matches!(i.kind, deno_graph::ImportKind::TsReferencePath))).unwrap_or(false);
          if !ok {
            report.fail("oracle", "written-import-not-recorded-once", format!("the path reference {:?} of the module information is not a dependency of the module", sp.text), replay.clone());
          }
        }
      }
    }
    // every JSDoc import written is recorded once, and a position inside it is found by the lookup
    if kind.include_types() {
      let texts_written: BTreeSet<&String> = info.jsdoc_imports.iter().map(|j| &j.specifier.text).collect();
      for text in texts_written {
        let written: Vec<&deno_graph::analysis::JsDocImportInfo> = info.jsdoc_imports.iter().filter(|j| j.specifier.text == *text).collect();
        let Some(d) = js.dependencies.get(text) else {
          report.fail("oracle", "written-import-not-recorded-once", format!("{:?}: a JSDoc import in the module information, no dependency", text), replay.clone());
          continue;
        };
        let recorded = d.imports.iter().filter(|i| matches!(i.kind, deno_graph::ImportKind::JsDoc)).count();
        if written.len() != recorded {
          report.fail("oracle", "written-import-not-recorded-once", format!("{:?}: {} JSDoc import(s) in the module information, {} recorded on the dependency", text, written.len(), recorded), replay.clone());
        }
        for j in written {
          let pos = j.specifier.range.start;
          match d.includes(pos) {
            Some(r) if r.range.includes(pos) => {}
            other => report.fail(
              "oracle",
              "position-lookup-misses-written-import",
              format!("{:?}: the JSDoc import at {}:{} is not found by Dependency::includes (answer {:?})", text, pos.line, pos.character, other.map(|r| r.range.clone())),
              replay.clone(),
            ),
          }
        }
      }
    }
    report.nontrivial.insert(format!(
      "deps/{:?}/{:?}/n{}/merged{}",
      kind,
      mt,
      js.dependencies.len().min(5),
      js.dependencies.values().filter(|d| d.imports.len() > 1).count().min(3)
    ));
    report.count(&format!("module-info-to-dependencies:{:?}", kind));
  }
}
