//! Reading emitted fast-check modules back: canonical declaration descriptions (for the model
//! correspondence) and the facts the statement oracles need (names, imports/exports, bodies).
use crate::fcgen::strip_ws;
use deno_ast::ParsedSource;
use deno_ast::SourceRangedForSpanned;
use deno_ast::swc::common::Spanned;
use deno_ast::swc::ast::*;
use std::collections::BTreeSet;

pub fn parse(url: &str, text: &str) -> Result<ParsedSource, String> {
  deno_ast::parse_module(deno_ast::ParseParams {
    specifier: deno_ast::ModuleSpecifier::parse(url).map_err(|e| e.to_string())?,
    text: text.into(),
    media_type: deno_ast::MediaType::from_specifier(&deno_ast::ModuleSpecifier::parse(url).unwrap()),
    capture_tokens: false,
    scope_analysis: false,
    maybe_syntax: None,
  })
  .map_err(|e| e.to_string())
}

pub struct X<'a> {
  pub src: &'a ParsedSource,
}

impl X<'_> {
  fn t<N: Spanned>(&self, n: &N) -> String {
    strip_ws(n.text_fast(self.src.text_info_lazy()))
  }

  fn ty(&self, t: &Option<Box<TsTypeAnn>>) -> String {
    t.as_ref().map(|t| format!(":{}", self.t(&*t.type_ann))).unwrap_or_default()
  }

  pub fn pat(&self, p: &Pat) -> String {
    match p {
      Pat::Ident(b) => format!("{}{}{}", b.id.sym, if b.id.optional { "?" } else { "" }, self.ty(&b.type_ann)),
      Pat::Rest(r) => format!("...{}{}", match &*r.arg { Pat::Ident(b) => b.id.sym.to_string(), other => self.t(other) }, self.ty(&r.type_ann)),
      Pat::Assign(a) => format!("{}={}", self.pat(&a.left), self.init(&a.right)),
      other => format!("?pat:{}", self.t(other)),
    }
  }

  fn is_never_obj(e: &Expr) -> bool {
    // {} as never
    match e {
      Expr::TsAs(a) => {
        matches!(&*a.expr, Expr::Object(o) if o.props.is_empty())
          && matches!(&*a.type_ann, TsType::TsKeywordType(k) if k.kind == TsKeywordTypeKind::TsNeverKeyword)
      }
      Expr::Paren(p) => Self::is_never_obj(&p.expr),
      _ => false,
    }
  }

  pub fn body(&self, b: &Option<BlockStmt>) -> String {
    match b {
      None => ";".into(),
      Some(b) if b.stmts.is_empty() => "{}".into(),
      Some(b) => {
        if b.stmts.len() == 1 {
          if let Stmt::Return(r) = &b.stmts[0] {
            if r.arg.as_ref().map(|a| Self::is_never_obj(a)).unwrap_or(false) {
              return "{R}".into();
            }
          }
        }
        format!("{{?{}}}", self.t(b))
      }
    }
  }

  pub fn function(&self, f: &Function) -> String {
    format!(
      "{}({}){}{}",
      if f.is_async { "async" } else { "" }.to_string() + if f.is_generator { "*" } else { "" },
      f.params.iter().map(|p| self.pat(&p.pat)).collect::<Vec<_>>().join(","),
      self.ty(&f.return_type),
      self.body(&f.body)
    )
  }

  pub fn arrow(&self, a: &ArrowExpr) -> String {
    let body = match &*a.body {
      BlockStmtOrExpr::BlockStmt(b) => self.body(&Some(b.clone())),
      BlockStmtOrExpr::Expr(e) => {
        if Self::is_never_obj(e) {
          "{R}".into()
        } else {
          let t = self.t(&**e);
          // the renderer parenthesises object literals
          // … and what begins with one behind parentheses: `(({} as never) as T)`; one enclosing pair is
          // dropped when it encloses the whole expression
          let encloses_all = |x: &str| {
            let mut depth = 0i32;
            for (i, c) in x.char_indices() {
              match c {
                '(' => depth += 1,
                ')' => {
                  depth -= 1;
                  if depth == 0 && i + 1 != x.len() {
                    return false;
                  }
                }
                _ => {}
              }
            }
            x.starts_with('(') && x.ends_with(')')
          };
          let inner = if encloses_all(&t) && t[1..].trim_start_matches('(').starts_with('{') { t[1..t.len() - 1].to_string() } else { t };
          format!("=>{}", inner)
        }
      }
    };
    format!(
      "{}({}){}{}",
      if a.is_async { "async" } else { "" },
      a.params.iter().map(|p| self.pat(p)).collect::<Vec<_>>().join(","),
      self.ty(&a.return_type),
      body
    )
  }

  pub fn init(&self, e: &Expr) -> String {
    match e {
      _ if Self::is_never_obj(e) => "N".into(),
      Expr::Arrow(a) => format!("arrow{}", self.arrow(a)),
      Expr::Fn(f) => format!("fn{}", self.function(&f.function)),
      Expr::Paren(p) => self.init(&p.expr),
      other => self.t(other),
    }
  }

  fn access(a: Option<Accessibility>) -> &'static str {
    match a {
      Some(Accessibility::Private) => "priv ",
      Some(Accessibility::Protected) => "prot ",
      _ => "",
    }
  }

  fn prop_name(&self, k: &PropName) -> String {
    match k {
      PropName::Ident(i) => i.sym.to_string(),
      other => self.t(other),
    }
  }

  pub fn class(&self, name: &str, c: &Class) -> String {
    let mut parts = vec![format!("class {}", name)];
    for m in &c.body {
      parts.push(match m {
        ClassMember::PrivateProp(p) if &*p.key.name == "private" => "brand".to_string(),
        ClassMember::PrivateProp(p) => format!("esprivate #{}", p.key.name),
        ClassMember::PrivateMethod(p) => format!("esprivate #{}", p.key.name),
        ClassMember::ClassProp(p) => format!(
          "prop {}{}{}{}{}{}{}{}",
          if p.is_static { "static " } else { "" },
          Self::access(p.accessibility),
          if p.readonly { "readonly " } else { "" },
          if p.declare { "declare " } else { "" },
          self.prop_name(&p.key),
          if p.is_optional { "?" } else { "" },
          self.ty(&p.type_ann),
          p.value.as_ref().map(|v| format!("={}", self.init(v))).unwrap_or_default()
        ),
        ClassMember::Method(mm) => format!(
          "method {}{}{}{}{}",
          if mm.is_static { "static " } else { "" },
          Self::access(mm.accessibility),
          match mm.kind { MethodKind::Getter => "get ", MethodKind::Setter => "set ", MethodKind::Method => "" },
          self.prop_name(&mm.key),
          self.function(&mm.function)
        ),
        ClassMember::Constructor(k) => {
          let params: Vec<String> = k
            .params
            .iter()
            .map(|p| match p {
              ParamOrTsParamProp::Param(p) => self.pat(&p.pat),
              ParamOrTsParamProp::TsParamProp(pp) => format!("?paramprop:{}", self.t(pp)),
            })
            .collect();
          let stmts = k.body.as_ref().map(|b| b.stmts.len()).unwrap_or(0);
          let calls_super = k.body.as_ref().map(|b| {
            b.stmts.iter().any(|s| matches!(s, Stmt::Expr(e) if matches!(&*e.expr, Expr::Call(c) if matches!(c.callee, Callee::Super(_)))))
          }).unwrap_or(false);
          format!(
            "ctor {}({}){}{}",
            Self::access(k.accessibility),
            params.join(","),
            if calls_super { "super" } else { "" },
            if stmts > calls_super as usize { format!("?stmts{}", stmts) } else { String::new() }
          )
        }
        ClassMember::StaticBlock(_) => "?staticblock".into(),
        ClassMember::TsIndexSignature(_) => "index".into(),
        ClassMember::Empty(_) => "empty".into(),
        ClassMember::AutoAccessor(_) => "?autoaccessor".into(),
      });
    }
    parts.join(" | ")
  }

  /// canonical descriptions of top-level functions (implementation only), variables and classes
  pub fn decl_tokens(&self) -> Vec<(String, String)> {
    let mut out = vec![];
    let deno_ast::ProgramRef::Module(module) = self.src.program_ref() else { return out };
    let mut do_decl = |d: &Decl, out: &mut Vec<(String, String)>| match d {
      Decl::Fn(f) => {
        if f.function.body.is_some() {
          out.push((f.ident.sym.to_string(), format!("fn {}{}", f.ident.sym, self.function(&f.function))));
        }
      }
      Decl::Var(v) => {
        for d in &v.decls {
          if let Pat::Ident(b) = &d.name {
            out.push((
              b.id.sym.to_string(),
              format!("var {}{}={}", b.id.sym, self.ty(&b.type_ann), d.init.as_ref().map(|i| self.init(i)).unwrap_or_default()),
            ));
          }
        }
      }
      Decl::Class(c) => out.push((c.ident.sym.to_string(), self.class(&c.ident.sym, &c.class))),
      _ => {}
    };
    for item in &module.body {
      match item {
        ModuleItem::Stmt(Stmt::Decl(d)) => do_decl(&d, &mut out),
        ModuleItem::ModuleDecl(ModuleDecl::ExportDecl(e)) => do_decl(&e.decl, &mut out),
        _ => {}
      }
    }
    out
  }

  /// names declared at the top level (with their kind) and whether they carry `export`
  pub fn top_level(&self) -> Vec<(String, &'static str, bool)> {
    let mut out = vec![];
    let deno_ast::ProgramRef::Module(module) = self.src.program_ref() else { return out };
    let mut do_decl = |d: &Decl, exported: bool, out: &mut Vec<(String, &'static str, bool)>| match d {
      Decl::Fn(f) => out.push((f.ident.sym.to_string(), "function", exported)),
      Decl::Var(v) => {
        for d in &v.decls {
          if let Pat::Ident(b) = &d.name {
            out.push((b.id.sym.to_string(), "var", exported));
          }
        }
      }
      Decl::Class(c) => out.push((c.ident.sym.to_string(), "class", exported)),
      Decl::TsInterface(i) => out.push((i.id.sym.to_string(), "interface", exported)),
      Decl::TsTypeAlias(t) => out.push((t.id.sym.to_string(), "type", exported)),
      Decl::TsEnum(e) => out.push((e.id.sym.to_string(), "enum", exported)),
      Decl::TsModule(m) => out.push((self.t(&m.id), "namespace", exported)),
      Decl::Using(_) => {}
    };
    for item in &module.body {
      match item {
        ModuleItem::Stmt(Stmt::Decl(d)) => do_decl(&d, false, &mut out),
        ModuleItem::ModuleDecl(ModuleDecl::ExportDecl(e)) => do_decl(&e.decl, true, &mut out),
        ModuleItem::ModuleDecl(ModuleDecl::ExportDefaultDecl(e)) => match &e.decl {
          DefaultDecl::Fn(f) => out.push((f.ident.as_ref().map(|i| i.sym.to_string()).unwrap_or("default".into()), "function", true)),
          DefaultDecl::Class(c) => out.push((c.ident.as_ref().map(|i| i.sym.to_string()).unwrap_or("default".into()), "class", true)),
          DefaultDecl::TsInterfaceDecl(i) => out.push((i.id.sym.to_string(), "interface", true)),
        },
        _ => {}
      }
    }
    out
  }

  /// top-level namespaces (`namespace X { … }`, exported or not): the names their bodies export
  pub fn namespaces(&self) -> std::collections::BTreeMap<String, BTreeSet<String>> {
    let mut out = std::collections::BTreeMap::new();
    let deno_ast::ProgramRef::Module(module) = self.src.program_ref() else { return out };
    let mut do_ns = |m: &TsModuleDecl| {
      let TsModuleName::Ident(id) = &m.id else { return };
      let Some(TsNamespaceBody::TsModuleBlock(b)) = &m.body else { return };
      let names: &mut BTreeSet<String> = out.entry(id.sym.to_string()).or_default();
      for item in &b.body {
        if let ModuleItem::ModuleDecl(ModuleDecl::ExportDecl(e)) = item {
          match &e.decl {
            Decl::Fn(f) => drop(names.insert(f.ident.sym.to_string())),
            Decl::Var(v) => {
              for d in &v.decls {
                if let Pat::Ident(b) = &d.name {
                  names.insert(b.id.sym.to_string());
                }
              }
            }
            Decl::Class(c) => drop(names.insert(c.ident.sym.to_string())),
            Decl::TsInterface(i) => drop(names.insert(i.id.sym.to_string())),
            Decl::TsTypeAlias(t) => drop(names.insert(t.id.sym.to_string())),
            Decl::TsEnum(e) => drop(names.insert(e.id.sym.to_string())),
            Decl::TsModule(m) => {
              if let TsModuleName::Ident(i) = &m.id {
                names.insert(i.sym.to_string());
              }
            }
            Decl::Using(_) => {}
          }
        }
      }
    };
    for item in &module.body {
      match item {
        ModuleItem::Stmt(Stmt::Decl(Decl::TsModule(m))) => do_ns(m),
        ModuleItem::ModuleDecl(ModuleDecl::ExportDecl(e)) => {
          if let Decl::TsModule(m) = &e.decl {
            do_ns(m)
          }
        }
        _ => {}
      }
    }
    out
  }

  /// `export default X;` with `X` an identifier
  pub fn default_export_ident(&self) -> Option<String> {
    let deno_ast::ProgramRef::Module(module) = self.src.program_ref() else { return None };
    module.body.iter().find_map(|item| match item {
      ModuleItem::ModuleDecl(ModuleDecl::ExportDefaultExpr(e)) => match &*e.expr {
        Expr::Ident(i) => Some(i.sym.to_string()),
        _ => None,
      },
      _ => None,
    })
  }

  /// `L.K` (and `L.K.…`, `typeof L.K`) in type positions: the leftmost identifier and the member after it
  pub fn qualified_refs(&self) -> BTreeSet<(String, String)> {
    use deno_ast::swc::ecma_visit::Visit;
    use deno_ast::swc::ecma_visit::VisitWith;
    struct V {
      out: BTreeSet<(String, String)>,
    }
    impl Visit for V {
      fn visit_ts_qualified_name(&mut self, n: &TsQualifiedName) {
        if let TsEntityName::Ident(l) = &n.left {
          self.out.insert((l.sym.to_string(), n.right.sym.to_string()));
        }
        n.visit_children_with(self);
      }
    }
    let mut v = V { out: BTreeSet::new() };
    self.src.program_ref().visit_with(&mut v);
    v.out
  }

  /// statements at the top level that are not declarations, imports or exports
  pub fn non_declaration_statements(&self) -> Vec<String> {
    let mut out = vec![];
    let deno_ast::ProgramRef::Module(module) = self.src.program_ref() else { return out };
    for item in &module.body {
      if let ModuleItem::Stmt(s) = item {
        if !matches!(s, Stmt::Decl(_) | Stmt::Empty(_)) {
          out.push(self.t(s));
        }
      }
    }
    out
  }

  /// (local binding names of imports, (specifier, imported name or `*`/`default`))
  pub fn imports(&self) -> Vec<(String, String, String)> {
    let mut out = vec![];
    let deno_ast::ProgramRef::Module(module) = self.src.program_ref() else { return out };
    for item in &module.body {
      if let ModuleItem::ModuleDecl(ModuleDecl::Import(i)) = item {
        let from = i.src.value.to_string_lossy().to_string();
        for s in &i.specifiers {
          match s {
            ImportSpecifier::Named(n) => out.push((
              n.local.sym.to_string(),
              from.clone(),
              n.imported.as_ref().map(|x| match x { ModuleExportName::Ident(i) => i.sym.to_string(), ModuleExportName::Str(s) => s.value.to_string_lossy().to_string() }).unwrap_or(n.local.sym.to_string()),
            )),
            ImportSpecifier::Default(d) => out.push((d.local.sym.to_string(), from.clone(), "default".into())),
            ImportSpecifier::Namespace(n) => out.push((n.local.sym.to_string(), from.clone(), "*".into())),
          }
        }
        if i.specifiers.is_empty() {
          out.push(("".into(), from.clone(), "".into()));
        }
      }
    }
    out
  }

  /// exported names: (exported name, Some((specifier, original name)) for re-exports); star re-exports as ("*", Some((spec, "*")))
  pub fn exports(&self) -> Vec<(String, Option<(String, String)>)> {
    let mut out = vec![];
    let deno_ast::ProgramRef::Module(module) = self.src.program_ref() else { return out };
    let name = |x: &ModuleExportName| match x {
      ModuleExportName::Ident(i) => i.sym.to_string(),
      ModuleExportName::Str(s) => s.value.to_string_lossy().to_string(),
    };
    for item in &module.body {
      match item {
        ModuleItem::ModuleDecl(ModuleDecl::ExportDecl(e)) => match &e.decl {
          Decl::Fn(f) => out.push((f.ident.sym.to_string(), None)),
          Decl::Var(v) => {
            for d in &v.decls {
              if let Pat::Ident(b) = &d.name {
                out.push((b.id.sym.to_string(), None));
              }
            }
          }
          Decl::Class(c) => out.push((c.ident.sym.to_string(), None)),
          Decl::TsInterface(i) => out.push((i.id.sym.to_string(), None)),
          Decl::TsTypeAlias(t) => out.push((t.id.sym.to_string(), None)),
          Decl::TsEnum(e) => out.push((e.id.sym.to_string(), None)),
          Decl::TsModule(m) => out.push((self.t(&m.id), None)),
          Decl::Using(_) => {}
        },
        ModuleItem::ModuleDecl(ModuleDecl::ExportDefaultDecl(_)) | ModuleItem::ModuleDecl(ModuleDecl::ExportDefaultExpr(_)) => out.push(("default".into(), None)),
        ModuleItem::ModuleDecl(ModuleDecl::ExportNamed(n)) => {
          let from = n.src.as_ref().map(|s| s.value.to_string_lossy().to_string());
          for s in &n.specifiers {
            match s {
              ExportSpecifier::Named(x) => {
                let orig = name(&x.orig);
                let exported = x.exported.as_ref().map(name).unwrap_or(orig.clone());
                out.push((exported, from.clone().map(|f| (f, orig.clone())).or(Some(("".into(), orig)))));
              }
              ExportSpecifier::Namespace(x) => out.push((name(&x.name), from.clone().map(|f| (f, "*".to_string())))),
              ExportSpecifier::Default(x) => out.push((x.exported.sym.to_string(), from.clone().map(|f| (f, "default".to_string())))),
            }
          }
        }
        ModuleItem::ModuleDecl(ModuleDecl::ExportAll(a)) => out.push(("*".into(), Some((a.src.value.to_string_lossy().to_string(), "*".into())))),
        _ => {}
      }
    }
    out
  }

  /// specifiers of `import("…")` types
  pub fn import_type_specifiers(&self) -> Vec<String> {
    use deno_ast::swc::ecma_visit::Visit;
    use deno_ast::swc::ecma_visit::VisitWith;
    struct V {
      out: Vec<String>,
    }
    impl Visit for V {
      fn visit_ts_import_type(&mut self, n: &TsImportType) {
        self.out.push(n.arg.value.to_string_lossy().to_string());
        n.visit_children_with(self);
      }
    }
    let mut v = V { out: vec![] };
    self.src.program_ref().visit_with(&mut v);
    v.out
  }

  /// identifiers used in the module (type references and expressions), by name
  pub fn referenced_idents(&self) -> BTreeSet<String> {
    use deno_ast::swc::ecma_visit::Visit;
    use deno_ast::swc::ecma_visit::VisitWith;
    struct V {
      out: BTreeSet<String>,
    }
    impl Visit for V {
      fn visit_ts_entity_name(&mut self, n: &TsEntityName) {
        match n {
          TsEntityName::Ident(i) => {
            self.out.insert(i.sym.to_string());
          }
          TsEntityName::TsQualifiedName(q) => self.visit_ts_entity_name(&q.left),
        }
      }
      fn visit_ts_expr_with_type_args(&mut self, n: &TsExprWithTypeArgs) {
        n.visit_children_with(self);
      }
      fn visit_expr(&mut self, e: &Expr) {
        if let Expr::Ident(i) = e {
          self.out.insert(i.sym.to_string());
        }
        e.visit_children_with(self);
      }
      fn visit_prop(&mut self, p: &Prop) {
        if let Prop::Shorthand(i) = p {
          self.out.insert(i.sym.to_string());
        }
        p.visit_children_with(self);
      }
      // names of members are not references
      fn visit_ts_property_signature(&mut self, n: &TsPropertySignature) {
        if n.computed {
          n.key.visit_with(self);
        }
        n.type_ann.visit_with(self);
      }
      fn visit_ts_method_signature(&mut self, n: &TsMethodSignature) {
        if n.computed {
          n.key.visit_with(self);
        }
        n.params.visit_with(self);
        n.type_ann.visit_with(self);
        n.type_params.visit_with(self);
      }
      fn visit_ts_getter_signature(&mut self, n: &TsGetterSignature) {
        n.type_ann.visit_with(self);
      }
      fn visit_ts_setter_signature(&mut self, n: &TsSetterSignature) {
        n.param.visit_with(self);
      }
      fn visit_ts_enum_member(&mut self, n: &TsEnumMember) {
        n.init.visit_with(self);
      }
      fn visit_ts_type_query_expr(&mut self, n: &TsTypeQueryExpr) {
        if let TsTypeQueryExpr::TsEntityName(e) = n {
          self.visit_ts_entity_name(e);
        }
        n.visit_children_with(self);
      }
    }
    let mut v = V { out: BTreeSet::new() };
    self.src.program_ref().visit_with(&mut v);
    v.out
  }
}
