//! A build that spins without calling the loader cannot be interrupted from inside the thread:
//! a watchdog thread reports it (result file with the world as replay) and ends the process.
use std::sync::Mutex;
use std::sync::OnceLock;
use std::time::Duration;
use std::time::Instant;

pub struct Watch {
  pub property: String,
  pub out: Option<String>,
  pub current: Option<(u64, Instant, serde_json::Value)>,
  pub counter: u64,
}

static WATCH: OnceLock<Mutex<Watch>> = OnceLock::new();

pub fn start(property: &str, out: Option<String>, limit: Duration) {
  let _ = WATCH.set(Mutex::new(Watch { property: property.to_string(), out, current: None, counter: 0 }));
  std::thread::spawn(move || loop {
    std::thread::sleep(Duration::from_millis(250));
    let w = WATCH.get().unwrap().lock().unwrap();
    if let Some((_, since, desc)) = &w.current {
      if since.elapsed() > limit {
        let result = serde_json::json!({
          "property": w.property, "evaluations": w.counter, "distinct_nontrivial": 0,
          "rule": "aborted by the watchdog", "samples": [desc], "distribution": {}, "exhaustive": [],
          "model_requests": 0, "notes": ["a build did not return within the watchdog limit"],
          "tier": "quick", "seed": 0, "wall_s": 0.0,
          "failures": [{"kind": "oracle", "shape": "build-does-not-terminate",
                        "what": format!("build did not finish within {:?} (no loader-call budget exhausted: it spins without loading)", limit),
                        "replay": desc}],
        });
        if let Some(p) = &w.out {
          let _ = std::fs::write(p, serde_json::to_string_pretty(&result).unwrap());
        } else {
          println!("{}", result);
        }
        std::process::exit(0);
      }
    }
  });
}

/// mark the start of one guarded operation
pub fn enter(desc: serde_json::Value) {
  if let Some(m) = WATCH.get() {
    let mut w = m.lock().unwrap();
    w.counter += 1;
    let c = w.counter;
    w.current = Some((c, Instant::now(), desc));
  }
}

pub fn leave() {
  if let Some(m) = WATCH.get() {
    m.lock().unwrap().current = None;
  }
}
