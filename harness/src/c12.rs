//! C12 — fast check is all-or-nothing per package, cache-transparent and deterministic.
use crate::c09::gen_pkg;
use crate::c09::world_of;
use crate::fc::*;
use crate::fcgen::*;
use crate::fcx;
use crate::report::*;
use crate::rng::Rng;
use crate::walkprops::Batch;
use deno_graph::fast_check::FastCheckCacheModuleItem;
use serde_json::json;
use std::collections::BTreeMap;
use std::collections::BTreeSet;

thread_local! {
  /// the packages of the current part are workspace members rooted at file:///ws/
  static WORKSPACE: std::cell::Cell<bool> = const { std::cell::Cell::new(false) };
}

fn url_of(p: &FcPackage, path: &str) -> String {
  if WORKSPACE.with(|w| w.get()) { format!("file:///ws{}", path) } else { FcWorld::url(p, path) }
}

fn urls(w: &FcWorld) -> Vec<String> {
  let mut v = vec![];
  for p in &w.pkgs {
    for (path, _) in &p.files {
      v.push(url_of(p, path));
    }
  }
  v.sort();
  v
}

fn entry_urls(w: &FcWorld) -> Vec<String> {
  let mut v = vec![];
  for p in &w.pkgs {
    for (_, path) in &p.exports {
      v.push(url_of(p, path.trim_start_matches('.')));
    }
  }
  v
}

fn pkg_prefix(p: &FcPackage) -> String {
  url_of(p, "/")
}

fn pkg_failed(run: &FcRun, p: &FcPackage) -> bool {
  let pre = pkg_prefix(p);
  run.slots.iter().any(|(u, s)| u.starts_with(&pre) && matches!(s, FcSlot::Diagnostics(_)))
}

fn pkg_entries(p: &FcPackage) -> Vec<String> {
  p.exports.iter().map(|(_, path)| url_of(p, path.trim_start_matches('.'))).collect()
}

#[allow(dead_code)]
fn text_of(w: &FcWorld, url: &str) -> Option<String> {
  for p in &w.pkgs {
    for (path, t) in &p.files {
      if url_of(p, path) == url {
        return Some(t.clone());
      }
    }
  }
  None
}

/// result in the model's tokens
fn result_tokens(run: &FcRun, all: &[String]) -> String {
  let mut t = vec![];
  for (u, s) in &run.slots {
    let i = all.iter().position(|x| x == u).unwrap();
    match s {
      FcSlot::Module { .. } => t.push(format!("ok:{}", i)),
      FcSlot::Diagnostics(ds) => {
        // the modules the diagnostics name, in order, each once
        let mut specs: Vec<usize> = vec![];
        for i in ds.iter().filter_map(|d| d.split(": ").nth(1)).filter_map(|s| all.iter().position(|x| x == s)) {
          if !specs.contains(&i) {
            specs.push(i);
          }
        }
        t.push(format!("err:{}:[{}]", i, specs.iter().map(|x| x.to_string()).collect::<Vec<_>>().join(",")));
      }
      FcSlot::None => {}
    }
  }
  t.join(" ")
}

fn same_outputs(a: &FcRun, b: &FcRun) -> Option<String> {
  let keys: BTreeSet<&String> = a.slots.keys().chain(b.slots.keys()).collect();
  for k in keys {
    let x = a.slots.get(k);
    let y = b.slots.get(k);
    let mx = matches!(x, Some(FcSlot::Module { .. }));
    let my = matches!(y, Some(FcSlot::Module { .. }));
    if mx != my {
      return Some(format!("{}: emitted module {} vs {}", k, mx, my));
    }
    if mx && x != y {
      return Some(format!("{}: emitted text, dependencies or source map differ", k));
    }
  }
  None
}

fn inject_bad(rng: &mut Rng, pkg: &mut APkg) -> Option<usize> {
  let i = rng.below(pkg.files.len());
  if rng.chance(1, 3) && !pkg.files.iter().any(|f| f.path == "/untyped.js") {
    // a diagnostic of the range finder rather than of the transform: a module of the public API
    // re-exports an untyped JavaScript module
    pkg.files[i].items.insert(0, Item::ExportStar { from: "./untyped.js".into() });
    pkg.files.push(AFile { path: "/untyped.js".into(), items: vec![Item::SideEffect("export const untypedValue = 1;".into())] });
    return Some(i);
  }
  // a function without return type in one module (exported, so it is public if the module is reached)
  let d = Decl {
    name: format!("bad{}", i),
    exported: true,
    is_default: false,
    kind: DeclKind::Function { f: Fn { params: vec![], ret: None, is_async: false, is_gen: false, analysis: RetAnalysis::Single }, overloads: 0 },
    sig_refs: vec![],
    body_refs: vec![],
    generics: String::new(),
  };
  pkg.files[i].items.insert(0, Item::Decl(d));
  Some(i)
}

pub fn run(tier: &str, seed: u64) -> Report {
  let mut report = Report::new("C12");
  report.rule = "generated packages (as C11; a third of them with a declaration that has no explicit return type in a random module, so some \
    packages fail, some only in modules outside the public API) and histories: run without a cache; cold run with a shared cache; warm run; \
    an edit of one source (implementation only / signature / introduce a slow type / remove it / a module outside the public API); run \
    with the now possibly stale cache; warm run again; every cached run is compared with a cache-less run on the same sources (set of \
    emitted modules, their text, dependencies and source maps must be identical; diagnostics must sit on every entrypoint); cache-less \
    runs repeated (determinism); all-or-nothing per package; recorded dependencies = dependencies the emitted text declares; the Lean model \
    of the package / cache state machine predicts the placement of results without a cache, the cache entry, and what a warm read returns; \
    the repository's five cache spec packages run the same history; the same packages as WORKSPACE MEMBERS (file: URLs, diagnostics collected over the whole package, 0-3 injected slow types): cache-less, cold and warm runs, statement oracle and model correspondence in collect-all mode; non-trivial = distinct (outcome, edit kind, cache state) classes"
    .into();
  crate::build::quiet_panics();
  let mut rng = Rng::new(seed ^ 0xC12);
  let mut batch = Batch::new();
  let n = if tier == "thorough" { 3000 } else { 300 };
  let mut worlds: Vec<(FcWorld, serde_json::Value)> = vec![];
  for i in 0..n {
    let mut pr = rng.fork();
    let mut pkg = gen_pkg(&mut pr, i);
    if i % 4 < 2 {
      inject_bad(&mut pr, &mut pkg);
    }
    let w = world_of(&pkg);
    let d = json!({"world": w.describe()});
    worlds.push((w, d));
  }
  // the repository's cache specs
  if let Ok(rd) = std::fs::read_dir("/repo/tests/specs/graph/fast_check") {
    let mut files: Vec<_> = rd.flatten().map(|e| e.path()).filter(|p| p.file_name().map(|n| n.to_string_lossy().starts_with("cache__")).unwrap_or(false)).collect();
    files.sort();
    for f in files {
      if let Some(w) = crate::c10::corpus_world(&f) {
        worlds.push((w, json!({"spec_file": f.to_string_lossy()})));
      }
    }
  }
  for (wi, (w0, replay)) in worlds.iter().enumerate() {
    batch.descs.push(replay.clone());
    report.evaluations += 1;
    let all = urls(w0);
    let r0 = run_fast_check(w0, None, false);
    if !r0.graph_errors.is_empty() {
      report.fail("oracle", "generated-package-does-not-build", r0.graph_errors.join(" | "), replay.clone());
      continue;
    }
    // determinism
    let r0b = run_fast_check(w0, None, false);
    if r0.slots != r0b.slots {
      report.fail("oracle", "repeated-run-differs", "two cache-less runs on the same sources differ".into(), replay.clone());
    }
    statement(&mut report, w0, &r0, &r0, false, "cache-less run", replay);
    recorded_deps(&mut report, &r0, replay);
    // cold, warm
    let cache = MemCache::default();
    let r1 = run_fast_check(w0, Some(&cache), false);
    if r1.slots != r0.slots {
      report.fail("oracle", "cold-cache-run-differs-from-cacheless-run", same_outputs(&r0, &r1).unwrap_or("diagnostics differ".into()), replay.clone());
    }
    let stored = snapshot(&cache);
    // model: result placement and the stored entry, per package
    for p in &w0.pkgs {
      let pre = pkg_prefix(p);
      let Some(items) = stored.iter().find(|e| e.iter().any(|(u, _, _)| u.starts_with(&pre))) else { continue };
      let idx = |u: &str| all.iter().position(|x| x == u).unwrap();
      // the entry lists the modules in the order they were transformed; on failure the last one is the failing module
      let fails = items.iter().any(|(_, info, _)| !*info);
      let mut mods: Vec<String> = vec![];
      let mut seen = BTreeSet::new();
      for (u, _, _) in items.iter() {
        if seen.insert(u.clone()) {
          mods.push(format!("({} {} 0)", idx(u), idx(u) + 100));
        }
      }
      if fails {
        // the entry lists the modules in the order they were transformed; the last one is the failing module
        let last = mods.pop().unwrap();
        mods.push(last.replace(" 0)", " 1)"));
      }
      let ent: Vec<String> = pkg_entries(p).iter().map(|e| idx(e).to_string()).collect();
      let imp_items: Vec<String> = {
        let mut v = vec![];
        let mut seen = BTreeSet::new();
        for (u, info, _) in items {
          let t = format!("{}:{}:{}", if *info { "info" } else { "diag" }, idx(u), idx(u) + 100);
          if seen.insert(t.clone()) {
            v.push(t);
          }
        }
        v
      };
      let sub = FcRun { graph: deno_graph::ModuleGraph::new(deno_graph::GraphKind::All), slots: r1.slots.iter().filter(|(u, _)| u.starts_with(&pre)).map(|(u, s)| (u.clone(), s.clone())).collect(), graph_errors: vec![] };
      batch.push(
        format!("(fc-uncached 1 (entries {}) (mods {}))", ent.join(" "), mods.join(" ")),
        format!("{} | {}", result_tokens(&sub, &all), imp_items.join(" ")),
        true,
      );
    }
    let r2 = run_fast_check(w0, Some(&cache), false);
    statement(&mut report, w0, &r0, &r2, true, "warm run", replay);
    warm_model(&mut batch, w0, &r2, &stored, &all);
    if snapshot(&cache) != stored {
      report.fail("oracle", "warm-run-rewrites-cache-entry", "a warm run on unchanged sources changed the cache".into(), replay.clone());
    }
    // edit
    let kind = ["implementation", "signature", "introduce-slow-type", "remove-slow-type", "outside-public-api", "drop-reference-to-untyped-module"][wi % 6];
    let failed = w0.pkgs.iter().any(|p| pkg_failed(&r0, p));
    let Some(w1) = edit(&mut rng, w0, kind, &r0) else {
      report.count("edit:not-applicable");
      continue;
    };
    let replay1 = json!({"before": replay, "edit": kind, "after": w1.describe()});
    let r3n = run_fast_check(&w1, None, false);
    if !r3n.graph_errors.is_empty() {
      continue;
    }
    statement(&mut report, &w1, &r3n, &r3n, false, "cache-less run after the edit", &replay1);
    let sets_before = cache.sets.borrow().len();
    let r3 = run_fast_check(&w1, Some(&cache), false);
    let reused = cache.sets.borrow().len() == sets_before;
    statement(&mut report, &w1, &r3n, &r3, reused, &format!("cached run after edit `{}`", kind), &replay1);
    let stored1 = snapshot(&cache);
    let r4 = run_fast_check(&w1, Some(&cache), false);
    statement(&mut report, &w1, &r3n, &r4, true, &format!("second cached run after edit `{}`", kind), &replay1);
    batch.descs.push(replay1.clone());
    warm_model(&mut batch, &w1, &r4, &stored1, &urls(&w1));
    let failed1 = w1.pkgs.iter().any(|p| pkg_failed(&r3n, p));
    report.nontrivial.insert(format!(
      "{}/{}/{}/{}",
      if failed { "fails" } else { "passes" },
      kind,
      if failed1 { "fails-after" } else { "passes-after" },
      if reused { "entry-reused" } else { "entry-rewritten" }
    ));
    report.count(&format!("history:{}:{}->{}:{}", kind, if failed { "fail" } else { "ok" }, if failed1 { "fail" } else { "ok" }, if reused { "reused" } else { "rewritten" }));
    if wi < 2 {
      report.sample(replay1);
    }
  }
  workspace_part(&mut report, &mut batch, &mut rng, if tier == "thorough" { 1500 } else { 150 });
  multi_package_part(&mut report, &mut batch, &mut rng, if tier == "thorough" { 1500 } else { 150 });
  // the shape corpora of C09 and C10 (one syntax form per package): cache-less, cold, warm and a
  // second cache-less run give the same output, all or nothing
  {
    let mut n = 0u64;
    for (name, w) in crate::c09::shape_worlds().into_iter().chain(crate::c10::shape_worlds()) {
      let replay = json!({"shape": name, "world": w.describe()});
      let r0 = run_fast_check(&w, None, false);
      let cache = MemCache::default();
      let cold = run_fast_check(&w, Some(&cache), false);
      let warm = run_fast_check(&w, Some(&cache), false);
      let again = run_fast_check(&w, None, false);
      report.evaluations += 1;
      n += 1;
      statement(&mut report, &w, &r0, &cold, false, &format!("shape `{}`, cold cache", name), &replay);
      statement(&mut report, &w, &r0, &warm, true, &format!("shape `{}`, warm cache", name), &replay);
      if let Some(d) = same_outputs(&r0, &again) {
        report.fail("oracle", "repeated-run-differs", format!("shape `{}`: {}", name, d), replay.clone());
      }
    }
    report.count_n("shape-corpus-histories", n);
  }
  batch.finish(&mut report, "C12");
  report
}

/// workspace members: diagnostics are collected over the whole package (no stop at the first one)
fn workspace_part(report: &mut Report, batch: &mut Batch, rng: &mut Rng, n: usize) {
  WORKSPACE.with(|w| w.set(true));
  for i in 0..n {
    let mut pr = rng.fork();
    let mut pkg = gen_pkg(&mut pr, i);
    for _ in 0..(i % 4) {
      inject_bad(&mut pr, &mut pkg);
    }
    let w0 = world_of(&pkg);
    let replay = json!({"workspace_member": true, "world": w0.describe()});
    batch.descs.push(replay.clone());
    report.evaluations += 1;
    let all = urls(&w0);
    let r0 = run_fast_check_workspace(&w0, None);
    if !r0.graph_errors.is_empty() {
      report.fail("oracle", "generated-package-does-not-build", r0.graph_errors.join(" | "), replay.clone());
      continue;
    }
    if run_fast_check_workspace(&w0, None).slots != r0.slots {
      report.fail("oracle", "repeated-run-differs", "two cache-less runs on the same workspace member differ".into(), replay.clone());
    }
    statement(report, &w0, &r0, &r0, false, "workspace member, cache-less run", &replay);
    recorded_deps(report, &r0, &replay);
    let cache = MemCache::default();
    let r1 = run_fast_check_workspace(&w0, Some(&cache));
    if r1.slots != r0.slots {
      report.fail("oracle", "cold-cache-run-differs-from-cacheless-run", format!("workspace member: {}", same_outputs(&r0, &r1).unwrap_or("diagnostics differ".into())), replay.clone());
    }
    let stored = snapshot(&cache);
    let p = &w0.pkgs[0];
    let idx = |u: &str| all.iter().position(|x| x == u).unwrap();
    if let Some(items) = stored.first() {
      // the modules named by the diagnostics, in order, each once
      let mut diag_specs: Vec<usize> = vec![];
      if let Some(FcSlot::Diagnostics(ds)) = pkg_entries(p).first().and_then(|e| r1.slots.get(e)) {
        for d in ds {
          if let Some(i) = d.split(": ").nth(1).and_then(|s| all.iter().position(|x| x == s)) {
            if !diag_specs.contains(&i) {
              diag_specs.push(i);
            }
          }
        }
      }
      // listed before the first failing module: transformed fine
      let mut mods: Vec<String> = vec![];
      let mut seen: BTreeSet<usize> = BTreeSet::new();
      for (u, _, _) in items {
        let i = idx(u);
        if !diag_specs.contains(&i) && seen.insert(i) {
          mods.push(format!("({} {} 0)", i, i + 100));
        }
      }
      for i in &diag_specs {
        mods.push(format!("({} {} 1)", i, i + 100));
      }
      let mut imp_items: Vec<String> = vec![];
      for (u, info, _) in items {
        let t = format!("{}:{}:{}", if *info { "info" } else { "diag" }, idx(u), idx(u) + 100);
        if !imp_items.contains(&t) {
          imp_items.push(t);
        }
      }
      let ent: Vec<String> = pkg_entries(p).iter().map(|e| idx(e).to_string()).collect();
      batch.push(
        format!("(fc-uncached 0 (entries {}) (mods {}))", ent.join(" "), mods.join(" ")),
        format!("{} | {}", result_tokens(&r1, &all), imp_items.join(" ")),
        true,
      );
      report.nontrivial.insert(format!("workspace/diag-modules-{}/listed-{}", diag_specs.len().min(4), items.len().min(6)));
      report.count(&format!("workspace:modules-with-diagnostics:{}", diag_specs.len().min(4)));
    }
    let r2 = run_fast_check_workspace(&w0, Some(&cache));
    statement(report, &w0, &r0, &r2, true, "workspace member, warm run", &replay);
    warm_model(batch, &w0, &r2, &stored, &all);
  }
  WORKSPACE.with(|w| w.set(false));
}

/// several packages sharing one cache: two top-level packages refer to a third one that only they
/// reach; an edit removes the references of one of them
/// which package of the world a URL belongs to
fn package_of(w: &FcWorld, url: &str) -> Option<usize> {
  w.pkgs.iter().position(|p| url.starts_with(&pkg_prefix(p)))
}

/// packages that have fast check data (a module or diagnostics) in a run
fn packages_with_output(w: &FcWorld, r: &FcRun) -> BTreeSet<usize> {
  r.slots.iter().filter(|(_, s)| !matches!(s, FcSlot::None)).filter_map(|(u, _)| package_of(w, u)).collect()
}

/// the queue of packages (DG/FcDeps.lean) replayed on what the implementation recorded: the
/// dependencies stored in the cache entries, the packages the emitted modules refer to
fn package_queue_part(
  report: &mut Report,
  batch: &mut Batch,
  w: &FcWorld,
  top: &[usize],
  cache: &MemCache,
  uncached: &FcRun,
  runs: &[(&str, Vec<usize>, &FcRun)],
  replay: &serde_json::Value,
) {
  let n = w.pkgs.len();
  let mut recorded: Vec<BTreeSet<usize>> = vec![BTreeSet::new(); n];
  let mut has_entry = vec![false; n];
  for item in cache.inner.borrow().values() {
    let Some(a) = item.modules.iter().find_map(|(u, _)| package_of(w, u.as_str())) else { continue };
    has_entry[a] = true;
    for d in &item.dependencies {
      if let Some(b) = w.pkgs.iter().position(|p| p.name == d.name.as_str() && p.version == d.version.to_string()) {
        recorded[a].insert(b);
      }
    }
  }
  let mut referenced: Vec<BTreeSet<usize>> = vec![BTreeSet::new(); n];
  for (u, s) in &uncached.slots {
    if let (Some(a), FcSlot::Module { deps, .. }) = (package_of(w, u), s) {
      for d in deps {
        if let Some(b) = d.split("=>").nth(1).and_then(|t| package_of(w, t)) {
          if b != a {
            referenced[a].insert(b);
          }
        }
      }
    }
  }
  for a in 0..n {
    if !has_entry[a] {
      continue;
    }
    for b in &referenced[a] {
      if !recorded[a].contains(b) {
        report.fail(
          "oracle",
          "package-referred-to-by-emitted-module-not-recorded-as-dependency",
          format!("the emitted modules of {} refer to modules of {}; the cache entry of {} lists the dependencies {:?}", w.pkgs[a].name, w.pkgs[*b].name, w.pkgs[a].name, recorded[a].iter().map(|i| w.pkgs[*i].name.clone()).collect::<Vec<_>>()),
          replay.clone(),
        );
      }
    }
  }
  let pkgs: Vec<String> = (0..n)
    .map(|a| format!("((recorded {}) (touched {}))", recorded[a].iter().map(|x| x.to_string()).collect::<Vec<_>>().join(" "), referenced[a].iter().map(|x| x.to_string()).collect::<Vec<_>>().join(" ")))
    .collect();
  for (label, stale, run) in runs {
    let req = format!("(fc-deps (top {}) (pkgs {}) (stale {}))", top.iter().map(|x| x.to_string()).collect::<Vec<_>>().join(" "), pkgs.join(" "), stale.iter().map(|x| x.to_string()).collect::<Vec<_>>().join(" "));
    let got = packages_with_output(w, run);
    batch.descs.push(json!({"run": label, "world": replay}));
    // the model's answer carries the order of analysis too; only the set of packages is observable here
    batch.push(req.replacen("(fc-deps ", "(fc-deps-outputs ", 1), got.iter().map(|x| x.to_string()).collect::<Vec<_>>().join(" "), false);
    report.evaluations += 1;
  }
}

fn multi_package_part(report: &mut Report, batch: &mut Batch, rng: &mut Rng, n: usize) {
  for i in 0..n {
    let mut pr = rng.fork();
    let mut mw = crate::c09::gen_multi(&mut pr, i, i % 2 == 0);
    // now and then the package the others depend on has a slow type somewhere
    if i % 3 == 2 {
      let last = mw.pkgs.len() - 1;
      inject_bad(&mut pr, &mut mw.pkgs[last]);
    }
    let w0 = mw.world();
    let replay = json!({"multi_package_world": w0.describe()});
    report.evaluations += 1;
    let r0 = run_fast_check(&w0, None, false);
    if !r0.graph_errors.is_empty() {
      report.fail("oracle", "generated-package-does-not-build", r0.graph_errors.join(" | "), replay.clone());
      continue;
    }
    statement(report, &w0, &r0, &r0, false, "several packages, cache-less run", &replay);
    let cache = MemCache::default();
    let r1 = run_fast_check(&w0, Some(&cache), false);
    if r1.slots != r0.slots {
      report.fail("oracle", "cold-cache-run-differs-from-cacheless-run", format!("several packages: {}", same_outputs(&r0, &r1).unwrap_or("diagnostics differ".into())), replay.clone());
    }
    let r2 = run_fast_check(&w0, Some(&cache), false);
    statement(report, &w0, &r0, &r2, true, "several packages, warm run", &replay);
    {
      let all: Vec<usize> = (0..w0.pkgs.len()).collect();
      package_queue_part(report, batch, &w0, &mw.top_level, &cache, &r0, &[("no cache", all.clone(), &r0), ("cold", all, &r1), ("warm", vec![], &r2)], &replay);
    }
    // edits that keep the references: one package's sources change without its declarations changing
    let mut cur = mw;
    for a in 0..cur.pkgs.len() {
      if !cur.cross.iter().any(|c| c.0 == a) && a + 1 != cur.pkgs.len() {
        continue;
      }
      let next = cur.touched(a, a + 1);
      let w1 = next.world();
      let replay1 = json!({"before": replay, "edit": format!("the sources of package {} change, its declarations do not", next.pkgs[a].name), "after": w1.describe()});
      let r3n = run_fast_check(&w1, None, false);
      if !r3n.graph_errors.is_empty() {
        break;
      }
      let r3 = run_fast_check(&w1, Some(&cache), false);
      statement(report, &w1, &r3n, &r3, false, &format!("several packages, cached run after the sources of package {} changed", next.pkgs[a].name), &replay1);
      package_queue_part(report, batch, &w1, &next.top_level, &cache, &r3n, &[("one package stale", vec![a], &r3)], &replay1);
      let r4 = run_fast_check(&w1, Some(&cache), false);
      statement(report, &w1, &r3n, &r4, true, "several packages, second cached run after the source change", &replay1);
      report.count("multi-package-history:source-change-keeping-references");
      cur = next;
    }
    // edits: each referring package in turn loses its references to the other packages
    for a in 0..cur.pkgs.len() {
      if !cur.cross.iter().any(|c| c.0 == a) {
        continue;
      }
      let next = cur.without_cross_of(a);
      let w1 = next.world();
      let replay1 = json!({"before": replay, "edit": format!("package {} drops its references to other packages", next.pkgs[a].name), "after": w1.describe()});
      let r3n = run_fast_check(&w1, None, false);
      if !r3n.graph_errors.is_empty() {
        break;
      }
      let sets_before = cache.sets.borrow().len();
      let r3 = run_fast_check(&w1, Some(&cache), false);
      let rewritten = cache.sets.borrow().len() - sets_before;
      statement(report, &w1, &r3n, &r3, false, &format!("several packages, cached run after package {} dropped its cross-package references", next.pkgs[a].name), &replay1);
      let r4 = run_fast_check(&w1, Some(&cache), false);
      statement(report, &w1, &r3n, &r4, true, "several packages, second cached run after the edit", &replay1);
      report.nontrivial.insert(format!("multi/p{}/cross{}/edit{}/rewritten{}", next.pkgs.len(), cur.cross.len().min(6), a, rewritten.min(3)));
      report.count(&format!("multi-package-history:entries-rewritten-after-edit:{}", rewritten.min(3)));
      cur = next;
    }
  }
}

type Stored = Vec<Vec<(String, bool, u64)>>;

fn snapshot(cache: &MemCache) -> Stored {
  cache
    .inner
    .borrow()
    .values()
    .map(|item| item.modules.iter().map(|(u, m)| (u.to_string(), matches!(m, FastCheckCacheModuleItem::Info(_)), m.source_hash())).collect())
    .collect()
}

/// the statement, per package, of `run` against the cache-less `reference` on the same sources
fn statement(report: &mut Report, w: &FcWorld, reference: &FcRun, run: &FcRun, entry_read_back: bool, label: &str, replay: &serde_json::Value) {
  if let Some(d) = same_outputs(reference, run) {
    report.fail("oracle", if entry_read_back { "warm-cache-changes-emitted-output" } else { "stale-cache-changes-emitted-output" }, format!("{}: {}", label, d), replay.clone());
  }
  for p in &w.pkgs {
    let pre = pkg_prefix(p);
    let analysed = reference.slots.iter().any(|(u, s)| u.starts_with(&pre) && !matches!(s, FcSlot::None));
    if !analysed {
      continue;
    }
    let failed = pkg_failed(reference, p);
    let any_module = run.slots.iter().any(|(u, s)| u.starts_with(&pre) && matches!(s, FcSlot::Module { .. }));
    if failed && any_module {
      report.fail("oracle", "package-partly-emitted", format!("{}: package {} fails and has emitted modules", label, p.name), replay.clone());
    }
    for e in pkg_entries(p) {
      let slot = run.slots.get(&e);
      if failed && !matches!(slot, Some(FcSlot::Diagnostics(_))) {
        report.fail(
          "oracle",
          if entry_read_back { "warm-cache-diagnostics-not-on-every-entrypoint" } else { "entrypoint-without-diagnostics" },
          format!("{}: entrypoint {} carries no diagnostics although package {} fails", label, e, p.name),
          replay.clone(),
        );
      }
      if !failed && !matches!(slot, Some(FcSlot::Module { .. })) {
        report.fail("oracle", "entrypoint-without-emitted-module", format!("{}: {}", label, e), replay.clone());
      }
      if !failed && matches!(slot, Some(FcSlot::Diagnostics(_))) {
        report.fail("oracle", "diagnostics-on-entrypoint-of-passing-package", format!("{}: {}", label, e), replay.clone());
      }
    }
  }
}

/// recorded dependencies = what the emitted text declares
fn recorded_deps(report: &mut Report, r0: &FcRun, replay: &serde_json::Value) {
  for (u, s) in &r0.slots {
    if let FcSlot::Module { text, deps, .. } = s {
      if let Ok(p) = fcx::parse(u, text) {
        let x = fcx::X { src: &p };
        let declared: BTreeSet<String> = x
          .imports()
          .into_iter()
          .map(|i| i.1)
          .chain(x.exports().into_iter().filter_map(|e| e.1.map(|s| s.0)).filter(|s| !s.is_empty()))
          .chain(x.import_type_specifiers())
          .collect();
        let recorded: BTreeSet<String> = deps.iter().map(|d| d.split("=>").next().unwrap().to_string()).collect();
        report.count_n("dependencies-compared", recorded.len() as u64);
        if declared != recorded {
          report.fail("oracle", "recorded-dependencies-differ-from-emitted-text", format!("{}: recorded {:?}, declared {:?}", u, recorded, declared), replay.clone());
        }
      }
    }
  }
}

/// the model reads every stored entry back on unchanged sources
fn warm_model(batch: &mut Batch, w: &FcWorld, warm: &FcRun, stored: &Stored, all: &[String]) {
  for p in &w.pkgs {
    let pre = pkg_prefix(p);
    let Some(entry) = stored.iter().find(|e| e.iter().any(|(u, _, _)| u.starts_with(&pre))) else { continue };
    let mut hash_ids: BTreeMap<u64, usize> = BTreeMap::new();
    let idx = |u: &str| all.iter().position(|x| x == u).unwrap();
    let items: Vec<String> = entry
      .iter()
      .map(|(u, info, h)| {
        let n = hash_ids.len();
        let id = *hash_ids.entry(*h).or_insert(n + 1);
        format!("({} {} {})", idx(u), if *info { "info" } else { "diag" }, id)
      })
      .collect();
    let now: Vec<String> = entry.iter().map(|(u, _, h)| format!("({} {})", idx(u), hash_ids[h])).collect();
    let ent: Vec<String> = pkg_entries(p).iter().map(|e| idx(e).to_string()).collect();
    let sub = FcRun { graph: deno_graph::ModuleGraph::new(deno_graph::GraphKind::All), slots: warm.slots.iter().filter(|(u, _)| u.starts_with(&pre)).map(|(u, s)| (u.clone(), s.clone())).collect(), graph_errors: vec![] };
    batch.push(format!("(fc-cached (entries {}) (items {}) (now {}))", ent.join(" "), items.join(" "), now.join(" ")), format!("valid {}", result_tokens(&sub, all)), true);
  }
}

/// one edit of one source text
fn edit(rng: &mut Rng, w: &FcWorld, kind: &str, r0: &FcRun) -> Option<FcWorld> {
  let mut w1 = w.clone();
  let in_api = |p: &FcPackage, path: &str| matches!(r0.slots.get(&url_of(p, path)), Some(FcSlot::Module { .. }) | Some(FcSlot::Diagnostics(_)));
  let pi = rng.below(w1.pkgs.len());
  let p = w1.pkgs[pi].clone();
  let cand: Vec<usize> = (0..p.files.len())
    .filter(|i| {
      let api = in_api(&p, &p.files[*i].0);
      if kind == "outside-public-api" { !api } else { api }
    })
    .collect();
  let has_slow = |t: &str| t.contains("function slowType");
  match kind {
    "implementation" => {
      let i = *cand.get(rng.below(cand.len().max(1)))?;
      w1.pkgs[pi].files[i].1 = p.files[i].1.replace("console.log(\"side effect\");", "console.log(\"another side effect\");").replace("return 1; }", "return 2; }");
      if w1.pkgs[pi].files[i].1 == p.files[i].1 {
        w1.pkgs[pi].files[i].1.push_str("console.log(\"appended\");\n");
      }
    }
    "signature" => {
      let i = *cand.get(rng.below(cand.len().max(1)))?;
      w1.pkgs[pi].files[i].1.push_str("export function addedLater(a: number): string { return String(a); }\n");
    }
    "introduce-slow-type" => {
      let i = *cand.get(rng.below(cand.len().max(1)))?;
      if has_slow(&p.files[i].1) {
        return None;
      }
      w1.pkgs[pi].files[i].1.push_str("export function slowType() { return Math.random(); }\n");
    }
    "remove-slow-type" => {
      // only meaningful for a failing package: make every untyped function typed
      let mut changed = false;
      for f in w1.pkgs[pi].files.iter_mut() {
        let t = f.1.replace("() { console.log(\"body\"); return compute(); }", "(): number { console.log(\"body\"); return compute(); }");
        if t != f.1 {
          f.1 = t;
          changed = true;
        }
      }
      if !changed {
        return None;
      }
    }
    "drop-reference-to-untyped-module" => {
      // the modules that re-export the untyped module stop doing so; the untyped module itself is unchanged
      let mut changed = false;
      for p in w1.pkgs.iter_mut() {
        for f in p.files.iter_mut() {
          // (still imported, for its effects only: the module stays in the graph with the same source)
          let t = f.1.replace("export * from \"./untyped.js\";\n", "import \"./untyped.js\";\n");
          if t != f.1 {
            f.1 = t;
            changed = true;
          }
        }
      }
      if !changed {
        return None;
      }
    }
    _ => {
      let i = *cand.get(rng.below(cand.len().max(1)))?;
      w1.pkgs[pi].files[i].1.push_str("export const outsideEdit: number = 1;\n");
    }
  }
  Some(w1)
}
