//! C18 — a graph segment is self-contained and equals a direct build of its roots.
use crate::battery::*;
use crate::build::*;
use crate::c01::same_attribute_proviso;
use crate::c01::world_cfg;
use crate::c17::obs;
use crate::dump;
use crate::dump::Ctx;
use crate::report::*;
use crate::rng::Rng;
use crate::walkprops::Batch;
use crate::world::*;
use deno_graph::GraphKind;
use deno_graph::Module;
use deno_graph::ModuleGraph;
use deno_graph::ModuleSpecifier;
use serde_json::json;
use std::collections::BTreeMap;
use std::collections::BTreeSet;

fn seg_line(ctx: &mut Ctx, g: &ModuleGraph) -> String {
  let mut slots: Vec<(usize, String)> = vec![];
  for (k, slot, _) in g.verif_slots() {
    let key = ctx.spec(k);
    let v = match slot {
      None => "p".to_string(),
      Some(Ok(_)) => "m".to_string(),
      Some(Err(e)) => format!("e{}", ctx.errors.id(&e.to_string_with_range())),
    };
    slots.push((key, format!("{}:{}", key, v)));
  }
  slots.sort_by_key(|x| x.0);
  let mut reds: Vec<(usize, String)> = vec![];
  for (a, b) in &g.redirects {
    let ka = ctx.spec(a);
    let kb = ctx.spec(b);
    reds.push((ka, format!("{}>{}", ka, kb)));
  }
  reds.sort_by_key(|x| x.0);
  let mut out: Vec<String> = slots.into_iter().map(|x| x.1).collect();
  out.extend(reds.into_iter().map(|x| x.1));
  out.push(format!("roots={}", g.roots.len()));
  out.join(" ")
}

pub fn run(tier: &str, seed: u64) -> Report {
  let mut report = Report::new("C18");
  report.rule = "generated worlds (as C01), every graph kind; for each built graph segments at: its own roots (clone \
    shortcut), every single module of the graph, and random pairs of modules; compared with the Lean model (entries, redirects, \
    roots); oracle: every dependency of every contained module resolves in the segment exactly as in the original \
    (resolve_dependency with and without type preference, try_get of the target), walks from the segment roots validate \
    alike, and for roots that were not roots of the original the segment's entries equal a direct build of those roots; \
    non-trivial = distinct (kind, #entries original, #entries segment)"
    .into();
  quiet_panics();
  let mut rng = Rng::new(seed ^ 0xC18);
  let n = if tier == "thorough" { 6000 } else { 600 };
  let mut batch = Batch::new();
  for wi in 0..n {
    let cfg = world_cfg(wi);
    let mut wr = rng.fork();
    let w = gen_world(&mut wr, &cfg);
    let loader = ScriptedLoader::new(&w);
    let Ok(g) = try_build_world(&w, &loader) else { continue };
    let mut ctx = Ctx::default();
    batch.descs.push(json!({"world": w.describe()}));
    batch.push(format!("(g {})", dump::graph(&mut ctx, &g)), "ok".into(), false);
    let module_keys: Vec<ModuleSpecifier> = g.modules().map(|m| m.specifier().clone()).collect();
    let mut root_sets: Vec<Vec<ModuleSpecifier>> = vec![g.roots.iter().cloned().collect()];
    for k in &module_keys {
      root_sets.push(vec![k.clone()]);
    }
    for _ in 0..3 {
      if module_keys.len() >= 2 {
        let a = rng.pick(&module_keys).clone();
        let b = rng.pick(&module_keys).clone();
        root_sets.push(vec![a, b]);
      }
    }
    // all the original roots and one more module; all but one of the original roots
    {
      let non_roots: Vec<&ModuleSpecifier> = module_keys.iter().filter(|k| !g.roots.contains(*k)).collect();
      if !non_roots.is_empty() {
        let mut v: Vec<ModuleSpecifier> = g.roots.iter().cloned().collect();
        v.push((*rng.pick(&non_roots)).clone());
        root_sets.push(v);
      }
      if g.roots.len() >= 2 {
        root_sets.push(g.roots.iter().skip(1).cloned().collect());
      }
    }
    let in_scope = !cfg.allow_inconsistent_finals && same_attribute_proviso(&w);
    // F19: a types-only walk replaces an untyped module that has a types dependency by that
    // dependency, so a types-only segment does not contain the module itself
    let f19_possible = g.graph_kind() == GraphKind::TypesOnly
      && g.modules().any(|m| matches!(m, Module::Js(js) if js.maybe_types_dependency.as_ref().map(|d| d.dependency.ok().is_some()).unwrap_or(false)));
    for roots in root_sets {
      report.evaluations += 1;
      let seg = g.segment(&roots);
      let ids: Vec<String> = roots.iter().map(|r| ctx.spec(r).to_string()).collect();
      batch.push(format!("(segment (roots {}))", ids.join(" ")), seg_line(&mut ctx, &seg), false);
      let desc = json!({"world": w.describe(), "segment_roots": roots.iter().map(|r| r.as_str()).collect::<Vec<_>>()});
      // for roots that were not all roots of the original, the segment is a graph of exactly the requested
      // roots (for roots of the original the code hands back a clone of the whole graph, which the
      // statement allows: it then only has to be self-contained)
      if !roots.iter().all(|r| g.roots.contains(r)) {
        let want: BTreeSet<&ModuleSpecifier> = roots.iter().collect();
        let got: BTreeSet<&ModuleSpecifier> = seg.roots.iter().collect();
        if want != got {
          report.fail("oracle", "segment-roots-differ-from-requested", format!("requested {:?}, the segment's roots are {:?}", want.iter().map(|r| r.as_str()).collect::<Vec<_>>(), got.iter().map(|r| r.as_str()).collect::<Vec<_>>()), desc.clone());
        }
      }
      // ---- self-contained -----------------------------------------------------------------
      for m in seg.modules() {
        // the walk skips an untyped module with a types dependency in a types-only graph; everything
        // the segment contains is held to the clause
        for (text, dep) in m.dependencies() {
          if dep.is_dynamic && false {
            continue;
          }
          for prefer in [false, true] {
            if g.graph_kind() == GraphKind::TypesOnly && !prefer {
              continue; // a types-only segment is only asked type-preferring questions
            }
            if g.graph_kind() == GraphKind::CodeOnly && prefer {
              continue;
            }
            let a = g.resolve_dependency(text, m.specifier(), prefer).cloned();
            let b = seg.resolve_dependency(text, m.specifier(), prefer).cloned();
            if a != b {
              let slot_keys: std::collections::HashSet<ModuleSpecifier> = g.verif_slots().into_iter().map(|(k, _, _)| k.clone()).collect();
              let chain_has_slot_on_source = [&dep.maybe_code, &dep.maybe_type].iter().any(|r| match r.maybe_specifier() {
                Some(t) => crate::c14::chain_facts(&g, &slot_keys, t).entry_on_source(),
                None => false,
              });
              // … or on the chain of the types dependency of the module the dependency resolves to
              let types_chain_has_slot_on_source = [&dep.maybe_code, &dep.maybe_type].iter().any(|r| {
                r.maybe_specifier()
                  .and_then(|t| g.get(t))
                  .and_then(|m| m.js())
                  .and_then(|js| js.maybe_types_dependency.as_ref())
                  .and_then(|td| td.dependency.maybe_specifier())
                  .map(|t| crate::c14::chain_facts(&g, &slot_keys, t).entry_on_source())
                  .unwrap_or(false)
              });
              // (F12 — an entry on a redirect source — is repaired; the shape stays so that a recurrence
              // is named, behind the open finding F19 whose trigger is the wider one)
              let shape = if f19_possible {
                "types-only-segment-omits-untyped-module-with-types-dependency"
              } else if g.redirects.contains_key(m.specifier()) || chain_has_slot_on_source || types_chain_has_slot_on_source {
                "slot-on-redirect-source"
              } else {
                "segment-resolves-dependency-differently"
              };
              let mut d2 = desc.clone();
              d2["segment"] = serde_json::to_value(&seg).unwrap();
              d2["original"] = serde_json::to_value(&g).unwrap();
              report.fail("oracle", shape, format!("{} dependency {:?} (prefer_types={}): original {:?}, segment {:?}", m.specifier(), text, prefer, a.map(|u| u.to_string()), b.map(|u| u.to_string())), d2);
            }
          }
        }
      }
      // validation from the segment roots gives the same verdict
      for fd in [false, true] {
        let opts = || deno_graph::WalkOptions { check_js: deno_graph::CheckJsOption::True, follow_dynamic: fd, kind: g.graph_kind(), prefer_fast_check_graph: false };
        let v1 = g.walk(roots.iter(), opts()).validate().map_err(|e| e.to_string_with_range());
        let v2 = seg.walk(roots.iter(), opts()).validate().map_err(|e| e.to_string_with_range());
        if v1.is_ok() != v2.is_ok() {
          report.fail("oracle", if f19_possible { "types-only-segment-omits-untyped-module-with-types-dependency" } else { "segment-validates-differently" }, format!("follow_dynamic={}: original {:?}, segment {:?}", fd, v1, v2), desc.clone());
        }
      }
      // ---- equals a direct build ---------------------------------------------------------------
      let all_roots_known = roots.iter().all(|r| g.roots.contains(r));
      if !all_roots_known && in_scope {
        let mut w2 = w.clone();
        w2.roots = roots.iter().filter_map(|r| w.spec_index(r)).collect();
        if w2.roots.len() == roots.len() {
          let loader2 = ScriptedLoader::new(&w2);
          if let Ok(direct) = try_build_world(&w2, &loader2) {
            let (k1, r1, _) = obs(&seg);
            let (k2, r2, _) = obs(&direct);
            if k1 != k2 || r1 != r2 {
              let mut diffs = vec![];
              for k in k1.keys().chain(k2.keys()).collect::<BTreeSet<_>>() {
                if k1.get(k) != k2.get(k) {
                  diffs.push(format!("{}: segment {:?} vs direct build {:?}", k, k1.get(k), k2.get(k)));
                }
              }
              if r1 != r2 {
                diffs.push(format!("redirects: segment {:?} vs direct {:?}", r1, r2));
              }
              // known causes, identified by what triggers them
              let has_item = |f: &dyn Fn(&Form) -> bool| w.resp.iter().any(|r| matches!(r, Resp::Module { items, .. } if items.iter().any(|it| f(&it.form))));
              let mut triggers: Vec<&str> = vec![];
              if f19_possible {
                triggers.push("types-only-segment-omits-untyped-module-with-types-dependency");
              }
              // (F15, "segment-keeps-configured-imports-entries", was repaired: a code-only build ignores
              // the configured imports, so a code-only graph has none to clone)
              if w.opts.skip_dynamic_deps || w.opts.is_dynamic {
                triggers.push("segment-follows-dynamic-imports-the-build-options-skip");
              }
              if has_item(&|f| matches!(f, Form::SourceMap)) {
                triggers.push("segment-drops-source-map-entries");
              }
              let cycle = (0..w.specs.len()).any(|i| {
                let mut cur = i;
                for _ in 0..40 {
                  match &w.resp[cur] {
                    Resp::Redirect(t) => cur = *t,
                    _ => return false,
                  }
                }
                true
              });
              if cycle || crate::world::redirect_budget_exceedable(&w) {
                triggers.push("too-many-redirects-entry-depends-on-entry-point");
              }
              let cls = |m: &BTreeMap<String, String>| m.values().any(|v| matches!(v.as_str(), "error:sourcePhase" | "error:unsupportedAttr" | "error:unsupportedMedia" | "error:invalidTypeAssertion"));
              let asset_forms = has_item(&|f| match f {
                Form::SourcePhase => true,
                Form::With(a) | Form::DynamicWith(a) => matches!(a.as_str(), "text" | "bytes" | "css"),
                _ => false,
              });
              // a non-root of unknown media type is an error entry, the same specifier built as a root is
              // assumed JavaScript; JSON needs an attribute unless it is a root
              let root_only = roots.iter().any(|r| {
                let e = crate::world::ext_of(r);
                e.is_empty() || e == "txt" || e == "json" || e == "css"
              });
              if asset_forms || cls(&k1) || cls(&k2) || root_only {
                triggers.push("slot-classification-depends-on-first-edge");
              }
              match triggers.len() {
                0 => report.fail("oracle", "segment-differs-from-direct-build", diffs.join("\n"), desc.clone()),
                1 => report.fail("oracle", triggers[0], diffs.join("\n"), desc.clone()),
                _ => report.count("info:differs-with-several-known-defect-triggers-present (not attributed)"),
              }
            } else {
              report.count("segment-equals-direct-build");
            }
          }
        }
      }
      report.nontrivial.insert(format!("{:?}/o{}/s{}", g.graph_kind(), g.verif_slots().len().min(12), seg.verif_slots().len().min(12)));
    }
    let _ = Module::dependencies;
  }
  fast_check_part(&mut report, &mut rng, if tier == "thorough" { 1500 } else { 150 });
  batch.finish(&mut report, "C18");
  report
}


/// graphs that carry fast-check data (generated registry packages, fast check run): a segment at a
/// package module must still contain every dependency of every module it contains, not only those
/// of the fast-check (public API) view
fn fast_check_part(report: &mut Report, rng: &mut Rng, n: usize) {
  use crate::fc::*;
  for i in 0..n {
    let mut pr = rng.fork();
    let pkg = crate::c09::gen_pkg(&mut pr, i);
    let w = crate::c09::world_of(&pkg);
    let run = run_fast_check(&w, None, false);
    if !run.graph_errors.is_empty() {
      continue;
    }
    let g = &run.graph;
    report.evaluations += 1;
    let with_fc = run.slots.values().filter(|s| matches!(s, FcSlot::Module { .. })).count();
    let urls: Vec<ModuleSpecifier> = run.slots.keys().filter_map(|u| ModuleSpecifier::parse(u).ok()).collect();
    for root in &urls {
      let roots = vec![root.clone()];
      let seg = g.segment(&roots);
      let desc = json!({"fast_check_world": w.describe(), "segment_roots": [root.as_str()]});
      let mut pruned_deps = 0;
      for m in seg.modules() {
        // what the original says about this module's dependencies, full view
        let Some(orig) = g.get(m.specifier()) else {
          report.fail("oracle", "segment-entry-not-in-original", m.specifier().to_string(), desc.clone());
          continue;
        };
        if let (Some(js), Some(ojs)) = (m.js(), orig.js()) {
          if js.dependencies.len() != ojs.dependencies.len() {
            report.fail("oracle", "segment-module-lost-dependencies", m.specifier().to_string(), desc.clone());
          }
          if let Some(deno_graph::FastCheckTypeModuleSlot::Module(fm)) = &ojs.fast_check {
            pruned_deps += ojs.dependencies.len().saturating_sub(fm.dependencies.len());
          }
        }
        for (text, _dep) in orig.dependencies() {
          for prefer in [false, true] {
            let a = g.resolve_dependency(text, m.specifier(), prefer).cloned();
            let b = seg.resolve_dependency(text, m.specifier(), prefer).cloned();
            if a != b {
              report.fail(
                "oracle",
                "segment-resolves-dependency-differently",
                format!("graph with fast-check data: {} dependency {:?} (prefer_types={}): original {:?}, segment {:?}", m.specifier(), text, prefer, a.map(|u| u.to_string()), b.map(|u| u.to_string())),
                desc.clone(),
              );
            }
          }
        }
      }
      for fd in [false, true] {
        let opts = || deno_graph::WalkOptions { check_js: deno_graph::CheckJsOption::True, follow_dynamic: fd, kind: g.graph_kind(), prefer_fast_check_graph: false };
        let a: BTreeSet<String> = g.walk(roots.iter(), opts()).map(|(s, _)| s.to_string()).collect();
        let b: BTreeSet<String> = seg.walk(roots.iter(), opts()).map(|(s, _)| s.to_string()).collect();
        if a != b {
          report.fail("oracle", "segment-walk-differs", format!("graph with fast-check data, follow_dynamic={}: original visits {:?}, segment {:?}", fd, a, b), desc.clone());
        }
      }
      report.nontrivial.insert(format!("fast-check/emitted{}/pruned-deps{}/entries{}", with_fc.min(5), pruned_deps.min(4), seg.modules().count().min(6)));
      report.count(&format!("fast-check-graph:segments:dependencies-pruned-from-public-view:{}", pruned_deps.min(4)));
    }
  }
}
