//! C20 — module text and original bytes are faithful to what the loader supplied.
use crate::build::*;
use crate::report::*;
use crate::rng::Rng;
use crate::walkprops::Batch;
use crate::world::*;
use deno_graph::GraphKind;
use deno_graph::Module;
use deno_graph::ModuleError;
use deno_graph::ModuleErrorKind;
use deno_graph::ModuleLoadError;
use deno_graph::ModuleSpecifier;
use serde_json::json;

const ALPHABET: &[u8] = &[0x00, 0x41, 0x7F, 0x80, 0xBF, 0xC2, 0xE0, 0xED, 0xF0, 0xF4, 0xFE, 0xFF];
const LABELS: &[Option<&str>] =
  &[None, Some("utf-8"), Some("UTF-8"), Some("utf-16le"), Some("utf-16be"), Some("windows-1252"), Some("bogus-charset")];

fn model_charset(label: Option<&str>) -> &'static str {
  match label {
    None => "-",
    Some(l) => match l.to_ascii_lowercase().as_str() {
      "utf-8" | "utf8" => "utf8",
      "utf-16le" | "utf-16" => "utf16le",
      "utf-16be" => "utf16be",
      "windows-1252" | "latin1" | "iso-8859-1" => "other",
      _ => "unsupported",
    },
  }
}

fn hex(b: &[u8]) -> String {
  b.iter().map(|x| format!("{:02x}", x)).collect()
}

/// statement-level expectation of the decoded text (None = decode error)
fn expected_text(label: Option<&str>, is_file: bool, bytes: &[u8]) -> Option<String> {
  let cs = match label {
    Some(l) => model_charset(Some(l)),
    None => {
      if is_file && bytes.starts_with(&[0xFF, 0xFE]) {
        "utf16le"
      } else if is_file && bytes.starts_with(&[0xFE, 0xFF]) {
        "utf16be"
      } else {
        "utf8"
      }
    }
  };
  let mut text = match cs {
    "utf8" => String::from_utf8_lossy(bytes).to_string(),
    "utf16le" | "utf16be" => {
      let be = cs == "utf16be";
      let units: Vec<u16> =
        bytes.chunks_exact(2).map(|p| if be { u16::from_be_bytes([p[0], p[1]]) } else { u16::from_le_bytes([p[0], p[1]]) }).collect();
      let mut s: String = char::decode_utf16(units.iter().copied()).map(|r| r.unwrap_or('\u{FFFD}')).collect();
      if bytes.len() % 2 == 1 {
        // a trailing odd byte is an error; when a lead surrogate is also pending the decoder reports once
        let pending_lead = units.last().map(|u| (0xD800..=0xDBFF).contains(u)).unwrap_or(false);
        if !pending_lead {
          s.push('\u{FFFD}');
        }
      }
      s
    }
    "other" => match deno_media_type::encoding::convert_to_utf8(bytes, label.unwrap()) {
      Ok(t) => t.to_string(),
      Err(_) => return None,
    },
    _ => return None,
  };
  if text.starts_with('\u{FEFF}') {
    text.drain(..3);
  }
  Some(text)
}

struct Case {
  label: Option<&'static str>,
  remote: bool,
  json: bool,
  bytes: Vec<u8>,
  /// a root without a known extension served with a content type that names no known media type
  unknown_media: bool,
}

enum Obs {
  Module { text: Vec<u8>, orig: Option<Vec<u8>>, size_json: Option<u64>, size_api: usize },
  DecodeError,
  Other(String),
}

fn observe(c: &Case) -> Obs {
  let ext = if c.json { "json" } else { "js" };
  let url = if c.unknown_media { "https://h.example/w/m".to_string() } else if c.remote { format!("https://h.example/w/m.{}", ext) } else { format!("file:///w/m.{}", ext) };
  let spec = ModuleSpecifier::parse(&url).unwrap();
  let headers = c.label.map(|l| {
    let mt = if c.unknown_media { "application/x-whatever" } else if c.json { "application/json" } else { "application/javascript" };
    // the charset parameter is not always the first one, nor written in lower case
    let variant = c.bytes.iter().map(|b| *b as usize).sum::<usize>() % 4;
    let value = match variant {
      0 => format!("{}; charset={}", mt, l),
      1 => format!("{}; version=5; charset={}", mt, l),
      2 => format!("{};charset={}; boundary=x", mt, l),
      _ => format!("{}; a=b; c=d; charset={}", mt, l),
    };
    vec![("content-type".to_string(), value)]
  });
  let w = World {
    specs: vec![spec.clone()],
    resp: vec![Resp::Module { final_spec: 0, headers, items: vec![], broken: Broken::No, raw: Some(c.bytes.clone()) }],
    roots: vec![0],
    imports: vec![],
    kind: GraphKind::All,
    opts: Opts::default(),
    ..Default::default()
  };
  let loader = ScriptedLoader::new(&w);
  let g = build_world(&w, &loader);
  let json = serde_json::to_value(&g).unwrap();
  let size_json = json["modules"][0]["size"].as_u64();
  match g.try_get(&spec) {
    Ok(Some(Module::Json(j))) => Obs::Module {
      text: j.source.text.as_bytes().to_vec(),
      orig: j.source.try_get_original_bytes().map(|b| b.to_vec()),
      size_json,
      size_api: j.size(),
    },
    Ok(Some(Module::Js(j))) => Obs::Module {
      text: j.source.text.as_bytes().to_vec(),
      orig: j.source.try_get_original_bytes().map(|b| b.to_vec()),
      size_json,
      size_api: j.size(),
    },
    Ok(Some(_)) => Obs::Other("unexpected module kind".into()),
    Ok(None) => Obs::Other("no module".into()),
    Err(e) => classify_err(e),
  }
}

fn classify_err(e: &ModuleError) -> Obs {
  match e.as_kind() {
    ModuleErrorKind::Load { err: ModuleLoadError::Decode(_), .. } => Obs::DecodeError,
    other => Obs::Other(format!("{}", other).chars().take(80).collect()),
  }
}

pub fn run(tier: &str, seed: u64) -> Report {
  let mut report = Report::new("C20");
  report.rule = "one-module graphs built through the real loader path: every byte string of length <= 3 over a 12-byte alphabet \
    hitting every UTF-8 decoder state (exhaustive) plus generated valid/invalid UTF-8 and UTF-16LE/BE with and without BOM, odd \
    lengths, lone surrogates, empty input  x charset header {none, utf-8, UTF-8, utf-16le, utf-16be, windows-1252, bogus} x \
    scheme {file, https} x {JSON module, JS module wrapped in a line comment}; compared: stored text bytes, decoded kind via \
    try_get_original_bytes, serialised size, decode error; non-trivial = distinct (charset, scheme, kind, outcome, length class)"
    .into();
  quiet_panics();
  let mut rng = Rng::new(seed ^ 0xC20);
  let mut inputs: Vec<Vec<u8>> = vec![vec![]];
  for a in ALPHABET {
    inputs.push(vec![*a]);
    for b in ALPHABET {
      inputs.push(vec![*a, *b]);
      for c in ALPHABET {
        inputs.push(vec![*a, *b, *c]);
      }
    }
  }
  let exhaustive_n = inputs.len();
  report.exhaustive.push(format!("all {} byte strings of length <= 3 over {:02x?}", exhaustive_n, ALPHABET));
  // structured extras
  let texts = ["hello", "h\u{e9}llo", "\u{feff}bom", "\u{feff}\u{feff}two", "a\u{1F600}b", "\u{10FFFF}", "{\"a\":1}", ""];
  for t in texts {
    inputs.push(t.as_bytes().to_vec());
    for be in [false, true] {
      for bom in [false, true] {
        let mut v = vec![];
        let mut units: Vec<u16> = t.encode_utf16().collect();
        if bom {
          units.insert(0, 0xFEFF);
        }
        for u in units {
          v.extend(if be { u.to_be_bytes() } else { u.to_le_bytes() });
        }
        inputs.push(v.clone());
        v.push(0x41); // odd length
        inputs.push(v);
      }
    }
  }
  // lone surrogates in UTF-16, truncated / overlong UTF-8
  inputs.push(vec![0x00, 0xD8, 0x41, 0x00]);
  inputs.push(vec![0x00, 0xDC, 0x41, 0x00]);
  inputs.push(vec![0xFF, 0xFE, 0x00, 0xD8]);
  inputs.push(vec![0xFF, 0xFE, 0x00, 0xD8, 0x41]);
  inputs.push(vec![0xE2, 0x82]);
  inputs.push(vec![0xC0, 0xAF]);
  inputs.push(vec![0xEF, 0xBB, 0xBF]);
  inputs.push(vec![0xEF, 0xBB, 0xBF, 0xEF, 0xBB, 0xBF, 0x41]);
  let random_n = if tier == "thorough" { 20_000 } else { 1_500 };
  for _ in 0..random_n {
    let n = rng.range(1, 10);
    let v: Vec<u8> = (0..n).map(|_| if rng.chance(1, 2) { *rng.pick(ALPHABET) } else { rng.below(256) as u8 }).collect();
    inputs.push(v);
  }

  let mut batch = Batch::new();
  batch.descs.push(json!({}));
  for (ii, input) in inputs.iter().enumerate() {
    for label in LABELS {
      for remote in [false, true] {
        for jsonm in [true, false] {
          // JS modules: keep the input parseable by putting it in a line comment after an
          // optional leading BOM; skip inputs that would end the comment
          let bytes = if jsonm {
            input.clone()
          } else {
            if ii >= exhaustive_n / 4 && ii < exhaustive_n {
              continue; // JS wrapper on a quarter of the exhaustive set only
            }
            if model_charset(*label).starts_with("utf16") || (label.is_none() && !remote && (input.starts_with(&[0xFF, 0xFE]) || input.starts_with(&[0xFE, 0xFF]))) {
              continue;
            }
            if input.iter().any(|b| *b == b'\n' || *b == b'\r') {
              continue;
            }
            let mut v = vec![];
            let body = if input.starts_with(&[0xEF, 0xBB, 0xBF]) {
              v.extend([0xEF, 0xBB, 0xBF]);
              &input[3..]
            } else {
              &input[..]
            };
            v.extend(b"//");
            v.extend(body);
            v
          };
          let case = Case { label: *label, remote, json: jsonm, bytes: bytes.clone(), unknown_media: false };
          report.evaluations += 1;
          let obs = observe(&case);
          // the same bytes as a root of unknown media type (taken for JavaScript): the charset of the header still decides
          if remote && !jsonm && label.is_some() {
            report.evaluations += 1;
            let exp = expected_text(*label, false, &bytes);
            let desc = json!({"label": label, "remote": true, "root_of_unknown_media_type": true, "bytes": hex(&bytes)});
            match observe(&Case { label: *label, remote: true, json: false, bytes: bytes.clone(), unknown_media: true }) {
              Obs::Module { text, .. } => match &exp {
                Some(e) if e.as_bytes() != &text[..] => report.fail("oracle", "text-is-not-the-decoding", format!("root of unknown media type: text {} expected {}", hex(&text), hex(e.as_bytes())), desc),
                None => report.fail("oracle", "undecodable-became-module", format!("root of unknown media type: module with text {} although the charset is unsupported", hex(&text)), desc),
                _ => report.count("outcome:unknown-media-root:decoded"),
              },
              Obs::DecodeError => {
                if exp.is_some() {
                  report.fail("oracle", "decodable-became-error", "root of unknown media type: decode error although the charset is supported".into(), desc);
                }
              }
              Obs::Other(_) => report.count("outcome:unknown-media-root:not-observable"),
            }
          }
          let cs = model_charset(*label);
          let conv = if cs == "other" {
            match deno_media_type::encoding::convert_to_utf8(&bytes, label.unwrap()) {
              Ok(std::borrow::Cow::Borrowed(_)) => "borrowed".to_string(),
              Ok(std::borrow::Cow::Owned(t)) => format!("(owned {})", t.chars().map(|c| (c as u32).to_string()).collect::<Vec<_>>().join(" ")),
              Err(_) => "-".to_string(),
            }
          } else {
            "-".to_string()
          };
          let req = format!(
            "(decode {} {} (bytes {}) {})",
            cs,
            if remote { 0 } else { 1 },
            bytes.iter().map(|b| b.to_string()).collect::<Vec<_>>().join(" "),
            conv
          );
          let exp = expected_text(*label, !remote, &bytes);
          let desc = json!({"label": label, "remote": remote, "json": jsonm, "bytes": hex(&bytes)});
          match obs {
            Obs::Module { text, orig, size_json, size_api } => {
              let kind = match &orig {
                None => "changed",
                Some(o) if *o == text => "unchanged",
                Some(_) => "bom",
              };
              batch.push(
                req,
                format!("{} text={} orig={} size={}", kind, hex(&text), orig.as_ref().map(|o| hex(o)).unwrap_or("-".into()), text.len()),
                false,
              );
              // ---- oracle ----
              if let Some(o) = &orig {
                if *o != bytes {
                  report.fail("oracle", "original-bytes-differ", format!("try_get_original_bytes = {} but the loader supplied {}", hex(o), hex(&bytes)), desc.clone());
                }
              }
              if size_api != text.len() || size_json != Some(text.len() as u64) {
                report.fail("oracle", "size-mismatch", format!("size api {} json {:?} text bytes {}", size_api, size_json, text.len()), desc.clone());
              }
              match &exp {
                Some(e) => {
                  if e.as_bytes() != &text[..] {
                    report.fail("oracle", "text-is-not-the-decoding", format!("text {} expected {}", hex(&text), hex(e.as_bytes())), desc.clone());
                  }
                }
                None => report.fail("oracle", "undecodable-became-module", format!("module with text {} although the charset is unsupported", hex(&text)), desc.clone()),
              }
              report.count(&format!("outcome:{}", kind));
              report.nontrivial.insert(format!("{}/{}/{}/{}/len{}", cs, remote, jsonm, kind, bytes.len().min(6)));
            }
            Obs::DecodeError => {
              batch.push(req, "err".into(), false);
              if exp.is_some() {
                report.fail("oracle", "decodable-became-error", "decode error although the charset is supported".into(), desc.clone());
              }
              report.count("outcome:decode-error");
              report.nontrivial.insert(format!("{}/{}/{}/err", cs, remote, jsonm));
            }
            Obs::Other(what) => {
              // e.g. a JS parse error: the text is not observable; not part of the comparison
              report.count(&format!("outcome:not-observable:{}", what.chars().take(30).collect::<String>()));
            }
          }
          if report.samples.len() < 4 && bytes.len() == 3 && ii % 97 == 0 {
            report.sample(desc);
          }
        }
      }
    }
  }
  registry_cases(&mut report, &mut batch);
  batch.finish(&mut report, "C20");
  report
}

/// registry (JSR) modules: content arrives either with the module load or, when the version
/// manifest embeds module information and the file is not cached, through the deferred content load
fn registry_cases(report: &mut Report, batch: &mut Batch) {
  use crate::registry::*;
  let code = b"export const v = 1;\n".to_vec();
  let mut with_bom = vec![0xEF, 0xBB, 0xBF];
  with_bom.extend(&code);
  let mut non_ascii = "// caf\u{e9} \u{1F600}\n".as_bytes().to_vec();
  non_ascii.extend(&code);
  let mut bom_non_ascii = vec![0xEF, 0xBB, 0xBF];
  bom_non_ascii.extend(&non_ascii);
  let mut invalid = code.clone();
  invalid.extend(b"// \xff\xfe\n");
  let mut utf16_bom = vec![0xFF, 0xFE];
  utf16_bom.extend(&code);
  let js_cases: Vec<Vec<u8>> = vec![code.clone(), with_bom, non_ascii, bom_non_ascii, invalid, utf16_bom, vec![], vec![0xEF, 0xBB, 0xBF]];
  let json_cases: Vec<Vec<u8>> = vec![b"{\"k\": 1}".to_vec(), [vec![0xEF, 0xBB, 0xBF], b"{\"k\": 1}".to_vec()].concat(), b"{\"k\": \"\xff\"}".to_vec(), b"{\"k\": \"\xc3\xa9\"}".to_vec()];
  for (ji, jb) in js_cases.iter().enumerate() {
    for (di, db) in json_cases.iter().enumerate() {
      if ji % json_cases.len() != di && ji != 1 {
        continue;
      }
      for mg in [MgKind::None, MgKind::V2, MgKind::V1, MgKind::Both] {
        for content_cached in [false, true] {
          let ver = RegVer {
            version: "1.0.0".into(),
            yanked: false,
            created_day: None,
            exports: ExportsDesc::Obj(vec![(".".into(), Some("./mod.ts".into())), ("./data".into(), Some("./data.json".into()))]),
            files: vec![
              RegFile { path: "/mod.ts".into(), items: vec![], raw: Some(jb.clone()), manifest: ManifestEntry::Ok, fault: Fault::None, tampered_cache: false },
              RegFile { path: "/data.json".into(), items: vec![], raw: Some(db.clone()), manifest: ManifestEntry::Ok, fault: Fault::None, tampered_cache: false },
            ],
            mg,
            fault: Fault::None,
            lockfile_checksum: None,
          };
          let mut cached = std::collections::BTreeSet::new();
          if content_cached {
            cached.insert(file_url("@s/a", "1.0.0", "/mod.ts"));
            cached.insert(file_url("@s/a", "1.0.0", "/data.json"));
          }
          let w = RegWorld {
            pkgs: vec![RegPkg { name: "@s/a".into(), versions: vec![ver], fault: Fault::None, stale: None }],
            user: vec![UserFile {
              url: "file:///main.ts".into(),
              items: vec![
                crate::world::Item { form: crate::world::Form::Namespace, text: "jsr:@s/a@1".into() },
                crate::world::Item { form: crate::world::Form::With("json".into()), text: "jsr:@s/a@1/data".into() },
              ],
            }],
            roots: vec!["file:///main.ts".into()],
            kind: GraphKind::All,
            prefer_cached: false,
            passthrough: false,
            skip_dynamic_deps: false,
            cutoff_day: None,
            excl: vec![],
            excl_prefixes: vec![],
            cached,
            has_locker: false,
            lock_manifests: vec![],
            lock_remote: vec![],
            seeds: vec![],
          };
          let loader = RegLoader::new(&w);
          let Ok(b) = build_reg(&w, &loader) else {
            report.fail("oracle", "registry-build-failed", "registry build failed".into(), w.describe());
            continue;
          };
          for (path, bytes) in [("/mod.ts", jb), ("/data.json", db)] {
            let spec = ModuleSpecifier::parse(&file_url("@s/a", "1.0.0", path)).unwrap();
            report.evaluations += 1;
            let desc = json!({"registry": true, "path": path, "mg": format!("{:?}", mg), "content_cached": content_cached, "bytes": hex(bytes)});
            let req = format!("(decode utf8 0 (bytes {}) -)", bytes.iter().map(|b| b.to_string()).collect::<Vec<_>>().join(" "));
            let exp = expected_text(None, false, bytes);
            let obs = match b.graph.try_get(&spec) {
              Ok(Some(Module::Json(j))) => Some((j.source.text.as_bytes().to_vec(), j.source.try_get_original_bytes().map(|b| b.to_vec()), j.size())),
              Ok(Some(Module::Js(j))) => Some((j.source.text.as_bytes().to_vec(), j.source.try_get_original_bytes().map(|b| b.to_vec()), j.size())),
              Ok(_) => None,
              Err(e) => {
                if matches!(classify_err(e), Obs::DecodeError) {
                  batch.push(req.clone(), "err".into(), false);
                  if exp.is_some() {
                    report.fail("oracle", "decodable-became-error", "decode error although the bytes decode".into(), desc.clone());
                  }
                  report.nontrivial.insert(format!("registry/{}/{:?}/{}/err", path, mg, content_cached));
                }
                None
              }
            };
            if let Some((text, orig, size)) = obs {
              let kind = match &orig {
                None => "changed",
                Some(o) if *o == text => "unchanged",
                Some(_) => "bom",
              };
              batch.push(req, format!("{} text={} orig={} size={}", kind, hex(&text), orig.as_ref().map(|o| hex(o)).unwrap_or("-".into()), text.len()), false);
              if let Some(o) = &orig {
                if o != bytes {
                  report.fail("oracle", "original-bytes-differ", format!("registry module: try_get_original_bytes = {} but the loader supplied {}", hex(o), hex(bytes)), desc.clone());
                }
              }
              if size != text.len() {
                report.fail("oracle", "size-mismatch", format!("size {} text bytes {}", size, text.len()), desc.clone());
              }
              match &exp {
                Some(e) if e.as_bytes() == &text[..] => {}
                Some(e) => report.fail("oracle", "text-is-not-the-decoding", format!("registry module: text {} expected {}", hex(&text), hex(e.as_bytes())), desc.clone()),
                None => {}
              }
              report.count(&format!("registry-outcome:{}", kind));
              report.nontrivial.insert(format!("registry/{}/{:?}/{}/{}", path, mg, content_cached, kind));
            }
          }
        }
      }
    }
  }
  report.exhaustive.push("registry modules: 8 JS byte strings x 4 JSON byte strings (paired) x embedded module info none/v2/v1 x content cached or not".into());
}
