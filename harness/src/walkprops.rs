//! C15 (walk visits exactly the selected reachable set) and C02 (validation fails
//! exactly when a followed edge reaches a failure) over built graphs.
use crate::battery::*;
use crate::build::*;
use crate::dump;
use crate::dump::Ctx;
use crate::oracle_walk::*;
use crate::report::*;
use crate::rng::Rng;
use crate::world::*;
use deno_graph::ModuleGraph;
use deno_graph::ModuleSpecifier;
use serde_json::Value;
use serde_json::json;
use std::collections::HashSet;

pub struct Batch {
  pub reqs: Vec<String>,
  pub imps: Vec<String>,
  pub sets: Vec<bool>,
  pub origin: Vec<usize>,
  pub descs: Vec<Value>,
}

impl Batch {
  pub fn new() -> Self {
    Batch { reqs: vec![], imps: vec![], sets: vec![], origin: vec![], descs: vec![] }
  }
  pub fn push(&mut self, r: String, i: String, set: bool) {
    self.reqs.push(r);
    self.imps.push(i);
    self.sets.push(set);
    self.origin.push(self.descs.len().saturating_sub(1));
  }
  pub fn finish(self, report: &mut Report, tag: &str) {
    report.model_requests = self.reqs.len() as u64;
    match crate::model::run_model(tag, &self.reqs) {
      Ok(model) => {
        let descs = &self.descs;
        let origin = &self.origin;
        compare(report, &self.reqs, &model, &self.imps, &self.sets, &|i| descs[origin[i]].clone());
      }
      Err(e) => report.fail("correspondence", "model-driver-failed", e, json!({})),
    }
  }
}

/// graphs to examine: generated worlds, every graph kind
pub fn graphs(tier: &str, seed: u64, quick_n: usize, thorough_n: usize, report: &mut Report) -> Vec<(World, ModuleGraph)> {
  let mut rng = Rng::new(seed);
  let n = if tier == "thorough" { thorough_n } else { quick_n };
  let mut out = vec![];
  for wi in 0..n {
    let mut cfg = GenCfg::default();
    if wi % 4 == 1 {
      cfg.chain = Some(1 + wi % 5);
    }
    if wi % 9 == 2 {
      cfg.cycle = Some(2 + wi % 3);
    }
    if wi % 6 == 3 {
      cfg.p_missing = 20;
      cfg.p_error = 10;
    }
    let mut wr = rng.fork();
    let w = gen_world(&mut wr, &cfg);
    if std::env::var("DGH_DEBUG").is_ok() {
      eprintln!("world {} {}", wi, w.describe());
    }
    let loader = ScriptedLoader::new(&w);
    match try_build_world(&w, &loader) {
      Ok(g) => out.push((w, g)),
      Err(f) => report.count(&format!("skipped-build-failure:{:?}", f).chars().take(50).collect::<String>()),
    }
  }
  out
}

fn root_sets(rng: &mut Rng, w: &World, g: &ModuleGraph, ctx: &mut Ctx, max_sets: usize) -> Vec<Vec<usize>> {
  let roots: Vec<usize> = g.roots.iter().map(|r| ctx.spec(r)).collect();
  let mut sets: Vec<Vec<usize>> = vec![];
  let n = roots.len().min(3);
  for mask in 1..(1u32 << n) {
    let s: Vec<usize> = (0..n).filter(|i| mask & (1 << i) != 0).map(|i| roots[i]).collect();
    sets.push(s);
  }
  // full set first
  sets.reverse();
  for _ in 0..2 {
    let extra = rng.below(w.specs.len());
    sets.push(vec![ctx.spec(&w.specs[extra])]);
  }
  sets.truncate(max_sets);
  sets
}

fn opts_for(rng: &mut Rng, w: &World, ctx: &mut Ctx, all: bool) -> Vec<WOpts> {
  // custom check-js: a random subset of the universe
  let custom: Vec<usize> = w.specs.iter().filter(|_| rng.chance(1, 2)).map(|s| ctx.spec(s)).collect();
  let mut v = all_wopts(Some(custom));
  if !all {
    // quick: a third of the 36 combinations per graph, rotating
    let k = rng.below(3);
    v = v.into_iter().enumerate().filter(|(i, _)| i % 3 == k).map(|(_, o)| o).collect();
  }
  v
}

pub fn run_c15(tier: &str, seed: u64) -> Report {
  let mut report = Report::new("C15");
  report.rule = "built graphs from generated worlds (all graph kinds, redirect chains/cycles, failures) x walk options \
    (3 kinds x follow_dynamic x check_js {true,false,custom} x prefer_fast_check; all 36 in thorough, a rotating third in quick) \
    x root subsets (all non-empty subsets of <=3 graph roots + 2 random non-roots) x client skip sets; compared: yielded set and \
    error multiset; non-trivial = distinct (graph kind, walk options, #visited, #errors, skip?) classes"
    .into();
  quiet_panics();
  let mut rng = Rng::new(seed ^ 0xC15);
  let gs = graphs(tier, seed, 800, 6000, &mut report);
  let mut batch = Batch::new();
  for (wi, (w, g)) in gs.iter().enumerate() {
    let mut ctx = Ctx::default();
    let gline = format!("(g {})", dump::graph(&mut ctx, g));
    batch.descs.push(json!({"world": w.describe()}));
    batch.push(gline, "ok".into(), false);
    if wi < 2 {
      report.sample(json!({"world": w.describe(), "graph": serde_json::to_value(g).unwrap()}));
    }
    let rsets = root_sets(&mut rng, w, g, &mut ctx, if tier == "thorough" { 9 } else { 4 });
    let opts = opts_for(&mut rng, w, &mut ctx, tier == "thorough");
    for o in &opts {
      for (ri, roots) in rsets.iter().enumerate() {
        // skip sets: none, and (for the first root set) a random subset of the universe
        let mut skips: Vec<Vec<usize>> = vec![vec![]];
        if ri == 0 {
          let sk: Vec<usize> = w.specs.iter().filter(|_| rng.chance(1, 3)).map(|s| ctx.spec(s)).collect();
          skips.push(sk);
        }
        for skip in &skips {
          report.evaluations += 1;
          let seq = impl_walk(&mut ctx, g, o, roots, skip);
          batch.push(req_walk(o, roots, skip), seq.join(" "), true);
          // --- oracle: nodup + exact set --------------------------------------
          let keys: Vec<&str> = seq.iter().map(|t| t.split(':').next().unwrap()).collect();
          let uniq: HashSet<&str> = keys.iter().copied().collect();
          let root_specs: Vec<ModuleSpecifier> = roots.iter().map(|r| spec_of(&ctx, *r)).collect();
          if uniq.len() != keys.len() {
            report.fail(
              "oracle",
              "walk-yields-duplicate",
              format!("walk yields a specifier twice: {:?}", seq),
              json!({"world": w.describe(), "options": o.label(), "roots": root_specs.iter().map(|r| r.as_str()).collect::<Vec<_>>()}),
            );
          }
          let skip_set: HashSet<ModuleSpecifier> = skip.iter().map(|i| spec_of(&ctx, *i)).collect();
          let exp = reachable(&ctx, g, o, &root_specs, &skip_set);
          let exp_tokens = visited_tokens(&mut ctx, &exp);
          let mut got_tokens = seq.clone();
          got_tokens.sort();
          if exp_tokens != got_tokens {
            report.fail(
              "oracle",
              "walk-set-mismatch",
              format!("options {} roots {:?} skip {:?}: walk yields {:?}, statement selects {:?}", o.label(), roots, skip, got_tokens, exp_tokens),
              json!({"world": w.describe(), "options": o.label(),
                     "roots": root_specs.iter().map(|r| r.as_str()).collect::<Vec<_>>(),
                     "skip": skip_set.iter().map(|r| r.as_str()).collect::<Vec<_>>(),
                     "specs": ctx.specs.list}),
            );
          }
          report.nontrivial.insert(format!("{:?}/{}/v{}/s{}", g.graph_kind(), o.label(), exp.len().min(12), skip.len().min(1)));
          // --- errors (no skip) -----------------------------------------------
          if skip.is_empty() {
            let errs = impl_errors(&mut ctx, g, o, roots);
            batch.push(req_errors(o, roots), errs.join(" "), true);
            let expected = expected_failures(&mut ctx, g, o, &exp);
            for f in &expected {
              if !surfaced(f, &errs) {
                let shape = if !f.alternatives.is_empty() && o.follow_dynamic && !f.is_dependency_target {
                  "missing-entry-not-surfaced-with-follow-dynamic"
                } else if !f.alternatives.is_empty() && o.follow_dynamic {
                  "missing-dependency-target-not-surfaced"
                } else {
                  "visited-failure-not-listed"
                };
                report.fail(
                  "oracle",
                  shape,
                  format!("options {} roots {:?}: {} ({}) not in errors {:?}", o.label(), roots, f.token, f.why, errs),
                  json!({"world": w.describe(), "options": o.label(), "roots": root_specs.iter().map(|r| r.as_str()).collect::<Vec<_>>()}),
                );
              }
            }
            // nothing beyond what is attached to visited entries
            for t in &errs {
              let ok = expected.iter().any(|f| f.token == *t || f.alternatives.iter().any(|a| t.starts_with(a.as_str())));
              if !ok {
                report.fail(
                  "oracle",
                  "listed-error-not-attached-to-visited",
                  format!("options {} roots {:?}: listed error {} is not attached to anything visited (expected {:?})", o.label(), roots, t,
                    expected.iter().map(|f| f.token.clone()).collect::<Vec<_>>()),
                  json!({"world": w.describe(), "options": o.label(), "errors": ctx.errors.list, "specs": ctx.specs.list}),
                );
              }
            }
            report.count(&format!("errors-per-walk:{}", errs.len().min(6)));
          }
          report.count(&format!("visited-per-walk:{}", exp.len().min(12)));
        }
      }
    }
    report.count(&format!("graph-kind:{:?}", g.graph_kind()));
    if !g.redirects.is_empty() {
      report.count("graphs-with-redirects");
    }
  }
  batch.finish(&mut report, "C15");
  report
}

pub fn run_c02(tier: &str, seed: u64) -> Report {
  let mut report = Report::new("C02");
  report.rule = "built graphs from generated worlds x walk options x root subsets: validate() verdict vs the statement's failure \
    predicate (error entries, failed resolutions, https->http, remote->literal file:, type-only and unfollowed-dynamic failures \
    ignored), reported error must be one of the expected failures; valid() likewise; non-trivial = distinct (kind, options, \
    verdict, #expected failures) classes"
    .into();
  quiet_panics();
  let mut rng = Rng::new(seed ^ 0xC02);
  let gs = graphs(tier, seed ^ 0x2222, 1000, 8000, &mut report);
  let mut batch = Batch::new();
  for (wi, (w, g)) in gs.iter().enumerate() {
    let mut ctx = Ctx::default();
    let gline = format!("(g {})", dump::graph(&mut ctx, g));
    batch.descs.push(json!({"world": w.describe()}));
    batch.push(gline, "ok".into(), false);
    if wi < 2 {
      report.sample(json!({"world": w.describe(), "valid": impl_valid(&mut ctx, g)}));
    }
    // valid(): default code validation from the graph's own roots
    {
      report.evaluations += 1;
      let v = impl_valid(&mut ctx, g);
      batch.push("(valid)".into(), v.clone(), false);
      let o = WOpts { kind: deno_graph::GraphKind::CodeOnly, follow_dynamic: false, check_js: CheckJs::True, prefer_fast_check: false };
      let roots: Vec<ModuleSpecifier> = g.roots.iter().cloned().collect();
      let exp = reachable(&ctx, g, &o, &roots, &HashSet::new());
      let expected = expected_failures(&mut ctx, g, &o, &exp);
      verdict_check(&mut report, w, "valid()", &o, &v, &expected);
      report.count(if v == "ok" { "valid:ok" } else { "valid:err" });
    }
    let rsets = root_sets(&mut rng, w, g, &mut ctx, if tier == "thorough" { 9 } else { 4 });
    let opts = opts_for(&mut rng, w, &mut ctx, tier == "thorough");
    for o in &opts {
      for roots in &rsets {
        report.evaluations += 1;
        let root_specs: Vec<ModuleSpecifier> = roots.iter().map(|r| spec_of(&ctx, *r)).collect();
        let v = impl_validate(&mut ctx, g, o, roots).unwrap_or_else(|| "ok".to_string());
        let errs = impl_errors(&mut ctx, g, o, roots);
        batch.push(req_errors(o, roots), errs.join(" "), true);
        let exp = reachable(&ctx, g, o, &root_specs, &HashSet::new());
        let expected = expected_failures(&mut ctx, g, o, &exp);
        verdict_check(&mut report, w, &format!("walk({:?}).validate()", roots), o, &v, &expected);
        // the first error is one of the listed ones
        if v != "ok" && !errs.contains(&v) {
          report.fail("oracle", "validate-error-not-in-errors", format!("validate() = {} not among errors() {:?}", v, errs), json!({"world": w.describe()}));
        }
        report.nontrivial.insert(format!("{:?}/{}/{}/f{}", g.graph_kind(), o.label(), if v == "ok" { "ok" } else { "err" }, expected.len().min(5)));
        report.count(if v == "ok" { "validate:ok" } else { "validate:err" });
        for f in &expected {
          let class = f.token.chars().take_while(|c| !c.is_ascii_digit()).collect::<String>();
          report.count(&format!("expected-failure-class:{}", class));
        }
      }
    }
  }
  fast_check_graphs_part(&mut report, &mut rng, if tier == "thorough" { 1500 } else { 150 });
  batch.finish(&mut report, "C02");
  report
}

fn verdict_check(report: &mut Report, w: &World, what: &str, o: &WOpts, verdict: &str, expected: &[ExpectedFailure]) {
  verdict_check_desc(report, json!({"world": w.describe()}), what, o, verdict, expected)
}

fn verdict_check_desc(report: &mut Report, desc: serde_json::Value, what: &str, o: &WOpts, verdict: &str, expected: &[ExpectedFailure]) {
  if verdict == "ok" {
    if let Some(f) = expected.first() {
      // a reachable failure was silently skipped
      let only_missing = expected.iter().all(|f| !f.alternatives.is_empty());
      let none_dep_target = expected.iter().all(|f| !f.is_dependency_target);
      let shape = if only_missing && o.follow_dynamic && none_dep_target {
        // F5: only Missing entries that no followed import points at (roots, configured imports)
        "missing-entry-not-surfaced-with-follow-dynamic"
      } else if only_missing && o.follow_dynamic {
        "missing-dependency-target-not-surfaced"
      } else {
        "validation-ok-despite-reachable-failure"
      };
      report.fail(
        "oracle",
        shape,
        format!("{} with {} is Ok although {} ({}) is reachable", what, o.label(), f.token, f.why),
        json!({"input": desc, "options": o.label(), "expected": expected.iter().map(|f| f.why.clone()).collect::<Vec<_>>()}),
      );
    }
  } else {
    let ok = expected.iter().any(|f| f.token == verdict || f.alternatives.iter().any(|a| verdict.starts_with(a.as_str())));
    if !ok {
      report.fail(
        "oracle",
        if expected.is_empty() { "validation-fails-without-reachable-failure" } else { "validation-reports-unexpected-error" },
        format!("{} with {} = {} but the reachable failures are {:?}", what, o.label(), verdict, expected.iter().map(|f| f.token.clone()).collect::<Vec<_>>()),
        json!({"input": desc, "options": o.label()}),
      );
    }
  }
}

/// graphs that carry fast check modules (a generated JSR package) in which one module imports a
/// specifier that does not resolve and uses it inside a function body only - fast check drops that
/// import from the module's fast check dependencies; every walk option: the verdict against the
/// statement's failure predicate
fn fast_check_graphs_part(report: &mut Report, rng: &mut Rng, n: usize) {
  use crate::fc::*;
  use crate::fcgen::Item;
  for i in 0..n {
    let mut pr = rng.fork();
    let mut pkg = crate::c09::gen_pkg(&mut pr, i);
    let fi = pr.below(pkg.files.len());
    let bad = *pr.pick(&["bare-helper-lib", "http://insecure.example/helper.ts", "file:///etc/helper.ts"]);
    pkg.files[fi].items.insert(0, Item::SideEffect(format!("import {{ helper }} from \"{}\";\nfunction useHelper(): unknown {{ return helper; }}", bad)));
    let w = crate::c09::world_of(&pkg);
    let run = run_fast_check(&w, None, false);
    let g = &run.graph;
    let with_fc = run.slots.values().filter(|s| matches!(s, FcSlot::Module { .. })).count();
    report.count(if with_fc > 0 { "fast-check-graphs:with-fast-check-modules" } else { "fast-check-graphs:without" });
    let mut ctx = Ctx::default();
    let desc = json!({"fast_check_world": w.describe(), "unresolvable_import": bad, "in_file": pkg.files[fi].path});
    let root_specs: Vec<ModuleSpecifier> = g.roots.iter().cloned().collect();
    let roots: Vec<usize> = root_specs.iter().map(|r| ctx.spec(r)).collect();
    for o in all_wopts(None) {
      report.evaluations += 1;
      let v = impl_validate(&mut ctx, g, &o, &roots).unwrap_or_else(|| "ok".to_string());
      let exp = reachable(&ctx, g, &o, &root_specs, &HashSet::new());
      let expected = expected_failures(&mut ctx, g, &o, &exp);
      verdict_check_desc(report, desc.clone(), "walk(roots).validate() on a graph with fast check modules", &o, &v, &expected);
      report.nontrivial.insert(format!("fc-graph/{}/{}/f{}", o.label(), if v == "ok" { "ok" } else { "err" }, expected.len().min(3)));
    }
  }
}
