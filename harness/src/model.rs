//! Running the compiled Lean model driver over a batch of request lines.
use std::io::Write;
use std::path::PathBuf;
use std::process::Command;

pub fn verif_root() -> PathBuf {
  std::env::var("VERIF_ROOT").map(PathBuf::from).unwrap_or_else(|_| PathBuf::from("/verif"))
}

pub fn model_exe() -> PathBuf {
  verif_root().join("lean/.lake/build/bin/dgmodel")
}

/// Feed `lines` to the model driver, return one answer per line.
pub fn run_model(tag: &str, lines: &[String]) -> Result<Vec<String>, String> {
  let work = verif_root().join("work");
  std::fs::create_dir_all(&work).map_err(|e| e.to_string())?;
  let req = work.join(format!("{}.req", tag));
  {
    let mut f = std::io::BufWriter::new(std::fs::File::create(&req).map_err(|e| e.to_string())?);
    for l in lines {
      debug_assert!(!l.contains('\n'));
      writeln!(f, "{}", l).map_err(|e| e.to_string())?;
    }
  }
  let out = Command::new(model_exe())
    .stdin(std::fs::File::open(&req).map_err(|e| e.to_string())?)
    .output()
    .map_err(|e| format!("cannot run model driver {:?}: {}", model_exe(), e))?;
  if !out.status.success() {
    return Err(format!("model driver exited with {:?}: {}", out.status, String::from_utf8_lossy(&out.stderr)));
  }
  let text = String::from_utf8_lossy(&out.stdout);
  let answers: Vec<String> = text.lines().map(|l| l.to_string()).collect();
  if answers.len() != lines.len() {
    return Err(format!("model driver answered {} lines for {} requests", answers.len(), lines.len()));
  }
  Ok(answers)
}
