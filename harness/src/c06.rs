//! C06 — JSR requirements resolve to the specified version (selection function).
use crate::report::*;
use crate::rng::Rng;
use crate::walkprops::Batch;
use deno_graph::packages::JsrPackageInfo;
use deno_graph::packages::JsrPackageInfoVersion;
use deno_graph::packages::JsrVersionResolver;
use deno_graph::packages::NewestDependencyDate;
use deno_graph::packages::NewestDependencyDateOptions;
use deno_semver::Version;
use deno_semver::VersionReq;
use deno_semver::package::PackageName;
use deno_semver::package::PackageReq;
use serde_json::json;
use std::collections::BTreeSet;
use std::collections::HashMap;
use std::collections::HashSet;

// two pairs differ in their build metadata only: deno_semver's `Ord` ignores it (its `Eq`/`Hash` do
// not), so the registry map can hold both and the selection has to break the tie itself (finding F37)
const UNIVERSE: &[&str] = &["0.9.0", "1.0.0", "1.0.0+a", "1.1.0-beta.1", "1.1.0", "1.1.0+x", "2.0.0"];
const REQS: &[&str] = &["*", "^1.0.0", "~1.0", "1.1.0", ">=1.1.0", "^2", "<1.0.0", "^1.1.0-beta", "1"];
const CUTOFF: i64 = 30;

fn date(t: i64) -> chrono::DateTime<chrono::Utc> {
  chrono::DateTime::from_timestamp(t * 86_400, 0).unwrap()
}

#[derive(Clone, Debug)]
struct Cfg {
  /// (version index, yanked, created_at day)
  infos: Vec<(usize, bool, Option<i64>)>,
  req: usize,
  existing: Vec<usize>,
  cached: Vec<usize>,
  cutoff: bool,
}

#[derive(Debug, PartialEq, Eq, Clone)]
enum Out {
  Ok(usize, bool),
  NotFound(bool),
}

impl Out {
  fn show(&self) -> String {
    match self {
      Out::Ok(v, y) => format!("ok {} {}", v, *y as u8),
      Out::NotFound(d) => format!("notfound {}", if *d { CUTOFF.to_string() } else { "-".to_string() }),
    }
  }
}

/// brute-force statement of the four tiers
fn oracle(cfg: &Cfg, sat: &dyn Fn(usize) -> bool) -> Out {
  let date_ok = |created: Option<i64>| !cfg.cutoff || created.map(|c| c < CUTOFF).unwrap_or(true);
  // 1. highest already selected version that satisfies the requirement
  if let Some(v) = cfg.existing.iter().copied().filter(|v| sat(*v)).max() {
    let y = cfg.infos.iter().find(|i| i.0 == v).map(|i| i.1).unwrap_or(false);
    return Out::Ok(v, y);
  }
  // 1.5 highest cached, non-yanked, date-ok
  if !cfg.cached.is_empty() {
    if let Some(v) =
      cfg.infos.iter().filter(|i| !i.1 && cfg.cached.contains(&i.0) && sat(i.0) && date_ok(i.2)).map(|i| i.0).max()
    {
      return Out::Ok(v, false);
    }
  }
  if let Some(v) = cfg.infos.iter().filter(|i| !i.1 && sat(i.0) && date_ok(i.2)).map(|i| i.0).max() {
    return Out::Ok(v, false);
  }
  if let Some(v) = cfg.infos.iter().filter(|i| i.1 && sat(i.0) && date_ok(i.2)).map(|i| i.0).max() {
    return Out::Ok(v, true);
  }
  Out::NotFound(cfg.cutoff && cfg.infos.iter().any(|i| sat(i.0)))
}

pub fn run(tier: &str, seed: u64) -> Report {
  let mut report = Report::new("C06");
  report.rule = "selection function JsrVersionResolver::get_for_package(..).resolve_version(..) on a 7-version universe (two pairs differing in build metadata only) \
    (incl. a prerelease) ordered by deno_semver: every registry subset of <=3 versions x yanked flag x created-at class \
    (none / before / after the cutoff) per version x 9 requirements x already-selected sets (empty, singletons, pairs and triples in several selection orders) x \
    cached sets (empty, all, singletons) x cutoff on/off; quick enumerates a 1-in-5 stride of that space, thorough all of it \
    plus 4- and 5-version registries sampled; VersionReq::matches is tabulated from deno_semver per requirement; \
    NewestDependencyDateOptions::get_for_package compared exhaustively on a name/exclusion grid; \
    graph level: whole resolve_pending_jsr_specifiers passes on flat registry worlds against the pass model (selection with the probe memo, \
    mappings, used yanked packages, cache-only probes, Reporter::on_resolve events, all three fill modes) and, on nested registry worlds, \
    every Reporter::on_resolve event replayed in order against a brute-force statement of the four tiers; version tags rejected; \
    non-trivial = distinct (tier that answered, requirement, #registry versions, cutoff, cached?) classes"
    .into();
  let mut rng = Rng::new(seed ^ 0xC06);
  let versions: Vec<Version> = {
    let mut v: Vec<Version> = UNIVERSE.iter().map(|s| Version::parse_standard(s).unwrap()).collect();
    // the model's order on versions: deno_semver's, ties broken on the build metadata
    v.sort_by(|a, b| a.cmp(b).then_with(|| a.build.cmp(&b.build)));
    v
  };
  let reqs: Vec<VersionReq> = REQS.iter().map(|r| VersionReq::parse_from_specifier(r).or_else(|_| VersionReq::parse_from_npm(r)).unwrap()).collect();
  let sat_table: Vec<Vec<bool>> = reqs.iter().map(|r| versions.iter().map(|v| r.matches(v)).collect()).collect();
  report.notes.push(format!(
    "version order: {:?}; matches table: {:?}",
    versions.iter().map(|v| v.to_string()).collect::<Vec<_>>(),
    REQS.iter().zip(sat_table.iter()).collect::<Vec<_>>()
  ));
  let name = PackageName::from_str("@scope/pkg");
  let n = versions.len();

  // existing / cached choices
  let mut existing_sets: Vec<Vec<usize>> = vec![vec![]];
  for i in 0..n {
    existing_sets.push(vec![i]);
  }
  // the already-selected versions arrive in the order they were selected, not sorted
  existing_sets.extend([vec![0, 4], vec![4, 0], vec![1, 6], vec![6, 1], vec![4, 3], vec![4, 1, 6], vec![6, 4, 1], vec![1, 2], vec![2, 1], vec![5, 4]]);

  let mut batch = Batch::new();
  batch.descs.push(json!({"universe": UNIVERSE, "reqs": REQS}));
  let stride = if tier == "thorough" { 1 } else { 5 };
  let mut counter = 0usize;
  let mut run_cfg = |cfg: &Cfg, report: &mut Report, batch: &mut Batch| {
    let sat = |v: usize| sat_table[cfg.req][v];
    // implementation
    let mut vmap = HashMap::new();
    for (v, y, c) in &cfg.infos {
      vmap.insert(versions[*v].clone(), JsrPackageInfoVersion { created_at: c.map(date), yanked: *y });
    }
    let info = JsrPackageInfo { versions: vmap, latest: None };
    let resolver = JsrVersionResolver {
      newest_dependency_date_options: NewestDependencyDateOptions {
        date: if cfg.cutoff { Some(NewestDependencyDate(date(CUTOFF))) } else { None },
        exclude_jsr_pkgs: BTreeSet::new(),
        exclude_jsr_pkg_prefixes: vec![],
      },
    };
    let pr = PackageReq { name: name.clone(), version_req: reqs[cfg.req].clone() };
    let existing: Vec<Version> = cfg.existing.iter().map(|i| versions[*i].clone()).collect();
    let cached: HashSet<Version> = cfg.cached.iter().map(|i| versions[*i].clone()).collect();
    let pv = resolver.get_for_package(&name, &info);
    let got = match pv.resolve_version(&pr, existing.iter(), &cached) {
      Ok(r) => Out::Ok(versions.iter().position(|v| v == r.version).unwrap(), r.is_yanked),
      Err(e) => Out::NotFound(e.newest_dependency_date.is_some()),
    };
    // the answer may not depend on the iteration order of the registry map: the same registry in
    // three more maps (fresh hasher state each) has to give the same answer
    for _ in 0..3 {
      let mut vmap2 = HashMap::new();
      for (v, y, c) in cfg.infos.iter().rev() {
        vmap2.insert(versions[*v].clone(), JsrPackageInfoVersion { created_at: c.map(date), yanked: *y });
      }
      let info2 = JsrPackageInfo { versions: vmap2, latest: None };
      let pv2 = resolver.get_for_package(&name, &info2);
      let got2 = match pv2.resolve_version(&pr, existing.iter(), &cached) {
        Ok(r) => Out::Ok(versions.iter().position(|v| v == r.version).unwrap(), r.is_yanked),
        Err(e) => Out::NotFound(e.newest_dependency_date.is_some()),
      };
      if got2.show() != got.show() {
        report.fail(
          "oracle",
          "selection-depends-on-map-order",
          format!("the same registry, requirement and selections resolve to {} and to {} depending on the iteration order of the version map", got.show(), got2.show()),
          json!({"cfg": format!("{:?}", cfg), "universe": versions.iter().map(|v| v.to_string()).collect::<Vec<_>>(), "req": REQS[cfg.req]}),
        );
        break;
      }
    }
    // the model gets the registry map in the HashMap's own iteration order
    let order: Vec<usize> = info.versions.keys().map(|k| versions.iter().position(|v| v == k).unwrap()).collect();
    let infos_s: Vec<String> = order
      .iter()
      .map(|v| {
        let (_, y, c) = cfg.infos.iter().find(|i| i.0 == *v).unwrap();
        format!("({} {} {})", v, *y as u8, c.map(|x| x.to_string()).unwrap_or("-".into()))
      })
      .collect();
    let sats: Vec<String> = (0..n).filter(|v| sat(*v)).map(|v| v.to_string()).collect();
    let req_line = format!(
      "(jsr (sat {}) {} (infos {}) (existing {}) (cached {}))",
      sats.join(" "),
      if cfg.cutoff { CUTOFF.to_string() } else { "-".into() },
      infos_s.join(" "),
      cfg.existing.iter().map(|x| x.to_string()).collect::<Vec<_>>().join(" "),
      cfg.cached.iter().map(|x| x.to_string()).collect::<Vec<_>>().join(" ")
    );
    batch.push(req_line, got.show(), false);
    report.evaluations += 1;
    let exp = oracle(cfg, &sat);
    let tier_name = match &exp {
      Out::Ok(v, y) => {
        if cfg.existing.contains(v) && sat(*v) && cfg.existing.iter().filter(|e| sat(**e)).max() == Some(v) {
          "tier1"
        } else if *y {
          "tier3"
        } else if !cfg.cached.is_empty() && cfg.cached.contains(v) {
          "tier1.5"
        } else {
          "tier2"
        }
      }
      Out::NotFound(true) => "notfound-date",
      Out::NotFound(false) => "notfound",
    };
    report.count(&format!("answer:{}", tier_name));
    report.nontrivial.insert(format!("{}/{}/n{}/c{}/k{}", tier_name, cfg.req, cfg.infos.len(), cfg.cutoff as u8, (!cfg.cached.is_empty()) as u8));
    if got != exp {
      report.fail(
        "oracle",
        "wrong-version-selected",
        format!("req {} on {:?}: resolve_version = {:?}, statement says {:?}", REQS[cfg.req], cfg, got, exp),
        json!({"cfg": format!("{:?}", cfg), "universe": versions.iter().map(|v| v.to_string()).collect::<Vec<_>>(), "req": REQS[cfg.req]}),
      );
    }
    if report.samples.len() < 3 && tier_name != "notfound" {
      report.sample(json!({"cfg": format!("{:?}", cfg), "req": REQS[cfg.req], "answer": got.show()}));
    }
  };

  // registries of <= 3 versions, exhaustively
  for mask in 0u32..(1 << n) {
    let members: Vec<usize> = (0..n).filter(|i| mask & (1 << i) != 0).collect();
    if members.len() > 3 {
      continue;
    }
    let k = members.len();
    let per = 6usize; // yanked x date class
    for code in 0..per.pow(k as u32) {
      let mut c = code;
      let mut infos = vec![];
      for m in &members {
        let x = c % per;
        c /= per;
        let yanked = x % 2 == 1;
        let created = match x / 2 {
          0 => None,
          1 => Some(10),
          _ => Some(50),
        };
        infos.push((*m, yanked, created));
      }
      let mut cached_sets: Vec<Vec<usize>> = vec![vec![], members.clone()];
      for m in &members {
        cached_sets.push(vec![*m]);
      }
      cached_sets.dedup();
      for req in 0..reqs.len() {
        for existing in &existing_sets {
          for cached in &cached_sets {
            for cutoff in [false, true] {
              if !cutoff && infos.iter().any(|i| i.2.is_some()) {
                continue; // dates are irrelevant without a cutoff: keep one representative
              }
              counter += 1;
              if counter % stride != 0 {
                continue;
              }
              let cfg = Cfg { infos: infos.clone(), req, existing: existing.clone(), cached: cached.clone(), cutoff };
              run_cfg(&cfg, &mut report, &mut batch);
            }
          }
        }
      }
    }
  }
  if stride == 1 {
    report.exhaustive.push("every registry of <= 3 versions over the 7-version universe x yanked x date class x 9 requirements x 9 selected sets x cached sets x cutoff".into());
  }
  // larger registries, sampled
  let samples = if tier == "thorough" { 200_000 } else { 30_000 };
  for _ in 0..samples {
    let k = rng.range(4, 5);
    let mut members: Vec<usize> = (0..n).collect();
    rng.shuffle(&mut members);
    members.truncate(k);
    let infos: Vec<(usize, bool, Option<i64>)> = members
      .iter()
      .map(|m| (*m, rng.chance(1, 3), match rng.below(3) { 0 => None, 1 => Some(10), _ => Some(50) }))
      .collect();
    let mut existing: Vec<usize> = (0..n).filter(|_| rng.chance(1, 4)).collect();
    rng.shuffle(&mut existing);
    let cached: Vec<usize> = if rng.chance(1, 2) { vec![] } else { members.iter().copied().filter(|_| rng.chance(1, 2)).collect() };
    let cfg = Cfg { infos, req: rng.below(reqs.len()), existing, cached, cutoff: rng.chance(2, 3) };
    run_cfg(&cfg, &mut report, &mut batch);
  }

  // exclusion list: exact names and prefixes
  // look-alike scopes: a prefix `@std/` exempts `@std/…` only, not `@std-ext/…`, `@stdx/…` or `@stdlib/…`
  let names = ["@scope/pkg", "@scope/other", "@std/path", "@std/fs", "@s/x", "@std-ext/path", "@stdx/path", "@stdlib/std", "@scope/p", "@sx/x"];
  let excl_sets: Vec<Vec<&str>> = vec![vec![], vec!["@scope/pkg"], vec!["@std/path", "@s/x"]];
  let pref_sets: Vec<Vec<&str>> = vec![vec![], vec!["@std/"], vec!["@scope/p", "@s"], vec!["@s/", "@scope/"]];
  for nm in names {
    for ex in &excl_sets {
      for pf in &pref_sets {
        for d in [None, Some(CUTOFF)] {
          let opts = NewestDependencyDateOptions {
            date: d.map(|x| NewestDependencyDate(date(x))),
            exclude_jsr_pkgs: ex.iter().map(|s| PackageName::from_str(s)).collect(),
            exclude_jsr_pkg_prefixes: pf.iter().map(|s| PackageName::from_str(s)).collect(),
          };
          let got = opts.get_for_package(&PackageName::from_str(nm));
          let line = format!(
            "(cutofffor {} (excl {}) (pref {}) {})",
            d.map(|x| x.to_string()).unwrap_or("-".into()),
            ex.join(" "),
            pf.join(" "),
            nm
          );
          batch.push(line, got.map(|_| CUTOFF.to_string()).unwrap_or("-".into()), false);
          report.evaluations += 1;
          // oracle
          let excluded = ex.contains(&nm) || pf.iter().any(|p| nm.starts_with(p));
          let exp = if excluded { None } else { d };
          if got.map(|_| CUTOFF) != exp {
            report.fail("oracle", "exclusion-list-wrong", format!("get_for_package({}) with excl {:?} prefixes {:?} date {:?} = {:?}", nm, ex, pf, d, got.map(|g| g.to_string())), json!({}));
          }
        }
      }
    }
  }
  report.exhaustive.push("NewestDependencyDateOptions::get_for_package on 10 names (look-alike scopes included) x 3 exact-exclusion sets x 4 prefix sets x date on/off".into());
  // graph level: whole resolution passes on flat registry worlds (model vs implementation, incl. the
  // cached-manifest probe memo and Reporter events) and the statement's tiers replayed in
  // resolution order on nested registry worlds
  let n_flat = if tier == "thorough" { 3000 } else { 400 };
  crate::c07::pass_part(&mut report, &mut batch, &mut rng, n_flat, 2);
  let n_nested = if tier == "thorough" { 3000 } else { 400 };
  for i in 0..n_nested {
    let mut wr = rng.fork();
    let cfg = crate::registry::RegCfg { faults: i % 5 == 4, ..Default::default() };
    let mut w = crate::registry::gen_reg_world(&mut wr, &cfg);
    if i % 2 == 0 {
      w.prefer_cached = true;
    }
    let loader = crate::registry::RegLoader::new(&w);
    match crate::registry::build_reg(&w, &loader) {
      Ok(b) => {
        report.count("nested:built");
        crate::c07::selection_oracle(&w, &b, &loader, &mut report);
        // version tags are rejected
        for e in b.graph.module_errors() {
          if e.specifier().scheme() == "jsr" && e.specifier().as_str().contains("@latest") {
            report.count("tag-rejected");
            if crate::c07::jsr_err_kind(e, None) != "package-format" {
              report.fail("oracle", "version-tag-not-rejected", format!("{}: {}", e.specifier(), e), w.describe());
            }
          }
        }
        for (s, t) in &b.graph.redirects {
          if s.scheme() == "jsr" && s.as_str().contains("@latest") {
            report.fail("oracle", "version-tag-not-rejected", format!("{} -> {}", s, t), w.describe());
          }
        }
      }
      Err(f) => report.fail("oracle", "registry-build-failed", format!("{:?}", f), w.describe()),
    }
  }
  batch.finish(&mut report, "C06");
  if report.failures.iter().any(|f| f.kind == "correspondence") && !report.failures.iter().any(|f| f.kind == "oracle") {
    crate::c07::search_failing_input(&mut report, &mut rng, 40_000, false);
  }
  report
}
