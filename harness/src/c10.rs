//! C10 — fast-check output has no executable logic and needs no type inference.
use crate::fc::*;
use crate::fcgen::*;
use crate::fcx;
use crate::report::*;
use crate::rng::Rng;
use crate::walkprops::Batch;
use deno_ast::swc::ast as swc;
use serde_json::json;

const HELPERS: &str = "export interface T0 { a: number }\nexport class C0 { declare x: number; }\nexport type U0 = string | number;\nexport const v0: number = 1;\nconst y = 5;\ndeclare const cond: boolean;\n";

pub fn single_decl_world(d: &Decl) -> FcWorld {
  let text = format!("{}{}function compute(): any {{ return 1; }}\n", HELPERS, render_decl(d));
  FcWorld {
    main: "import 'jsr:@s/a';\n".into(),
    pkgs: vec![FcPackage { name: "@s/a".into(), version: "1.0.0".into(), exports: vec![(".".into(), "./mod.ts".into())], files: vec![("/mod.ts".into(), text)] }],
  }
}

pub fn gen_ctx() -> GenCtx {
  GenCtx { type_names: vec!["T0".into(), "C0".into(), "U0".into()], value_names: vec!["y".into(), "v0".into()] }
}

/// the statement's clauses, checked on the syntax tree of an emitted module
pub fn logic_oracle(url: &str, text: &str, report: &mut Report, replay: &serde_json::Value) {
  use deno_ast::swc::ecma_visit::Visit;
  use deno_ast::swc::ecma_visit::VisitWith;
  let parsed = match fcx::parse(url, text) {
    Ok(p) => p,
    Err(e) => {
      report.fail("oracle", "emitted-module-does-not-parse", format!("{}: {}", url, e.chars().take(300).collect::<String>()), replay.clone());
      return;
    }
  };
  let x = fcx::X { src: &parsed };
  for s in x.non_declaration_statements() {
    report.fail("oracle", "non-declaration-statement-survives", format!("{}: `{}`", url, s.chars().take(120).collect::<String>()), replay.clone());
  }
  struct V<'a> {
    fails: Vec<(String, String)>,
    x: &'a fcx::X<'a>,
    in_class_private: bool,
  }
  impl V<'_> {
    fn check_params<'b>(&mut self, pats: impl Iterator<Item = &'b swc::Pat>, what: &str) {
      for p in pats {
        let typed = match p {
          swc::Pat::Ident(b) => b.type_ann.is_some(),
          swc::Pat::Rest(r) => r.type_ann.is_some(),
          swc::Pat::Array(a) => a.type_ann.is_some(),
          swc::Pat::Object(o) => o.type_ann.is_some(),
          // a retained default value
          swc::Pat::Assign(a) => {
            self.check_init(&a.right, "parameter default");
            true
          }
          _ => false,
        };
        if !typed {
          self.fails.push(("parameter-without-type-or-default".into(), format!("{}: {}", what, self.x.pat(p))));
        }
      }
    }
    fn check_body(&mut self, body: &Option<swc::BlockStmt>, what: &str, allow_super: bool) {
      let Some(b) = body else { return };
      for s in &b.stmts {
        let ok = match s {
          swc::Stmt::Return(r) => r.arg.as_ref().map(|a| is_placeholder(a)).unwrap_or(true),
          swc::Stmt::Expr(e) if allow_super => matches!(&*e.expr, swc::Expr::Call(c) if matches!(c.callee, swc::Callee::Super(_)) && c.args.iter().all(|a| is_placeholder(&a.expr))),
          _ => false,
        };
        if !ok {
          self.fails.push(("function-body-keeps-logic".into(), format!("{}: body {}", what, self.x.body(body))));
          return;
        }
      }
      if b.stmts.len() > 1 {
        self.fails.push(("function-body-keeps-logic".into(), format!("{}: {} statements", what, b.stmts.len())));
      }
    }
    /// an initialiser that survives: placeholder, literal-like, or a fully annotated function
    fn check_init(&mut self, e: &swc::Expr, what: &str) {
      match classify_init(e) {
        InitClass::Placeholder | InitClass::LiteralLike => {}
        InitClass::Function => {} // visited separately (params / return type / body)
        InitClass::Leavable(kind) => self.fails.push((
          "initialiser-left-as-expression-needing-inference".into(),
          format!("{}: a {} expression is left in the output: `{}`", what, kind, self.x.init(e).chars().take(80).collect::<String>()),
        )),
        InitClass::Other(kind) => self.fails.push(("initialiser-keeps-logic".into(), format!("{}: {} `{}`", what, kind, self.x.init(e).chars().take(80).collect::<String>()))),
      }
    }
  }
  fn is_placeholder(e: &swc::Expr) -> bool {
    match e {
      swc::Expr::TsAs(a) => {
        let empty = match &*a.expr {
          swc::Expr::Object(o) => o.props.is_empty(),
          swc::Expr::Array(ar) => ar.elems.is_empty(),
          swc::Expr::Paren(p) => is_placeholder(&p.expr),
          _ => false,
        };
        empty
      }
      swc::Expr::Paren(p) => is_placeholder(&p.expr),
      _ => false,
    }
  }
  enum InitClass {
    Placeholder,
    LiteralLike,
    Function,
    Leavable(&'static str),
    Other(&'static str),
  }
  fn classify_init(e: &swc::Expr) -> InitClass {
    use swc::Expr::*;
    match e {
      _ if is_placeholder(e) => InitClass::Placeholder,
      Lit(_) => InitClass::LiteralLike,
      Tpl(t) if t.exprs.is_empty() => InitClass::LiteralLike,
      Tpl(t) => {
        // a substitution that is itself logic (a call, `new`, …) makes the whole template logic
        let mut worst = InitClass::Leavable("template-with-substitutions");
        for sub in &t.exprs {
          if let InitClass::Other(kind) = classify_init(sub) {
            worst = InitClass::Other(kind);
          }
        }
        worst
      }
      Paren(p) => classify_init(&p.expr),
      TsConstAssertion(c) => classify_init(&c.expr),
      TsSatisfies(c) => classify_init(&c.expr),
      TsAs(a) => classify_init(&a.expr),
      Unary(u) if matches!(u.op, swc::UnaryOp::Minus | swc::UnaryOp::Plus) && matches!(&*u.arg, Lit(_)) => InitClass::LiteralLike,
      Array(a) => {
        let mut worst = InitClass::LiteralLike;
        for el in a.elems.iter().flatten() {
          match classify_init(&el.expr) {
            InitClass::LiteralLike | InitClass::Placeholder | InitClass::Function => {}
            other => worst = other,
          }
        }
        worst
      }
      Object(o) => {
        let mut worst = InitClass::LiteralLike;
        for p in &o.props {
          let c = match p {
            swc::PropOrSpread::Prop(p) => match &**p {
              swc::Prop::KeyValue(kv) => classify_init(&kv.value),
              swc::Prop::Shorthand(_) => InitClass::Leavable("identifier"),
              _ => InitClass::Other("object member with a body"),
            },
            swc::PropOrSpread::Spread(s) => match classify_init(&s.expr) {
              InitClass::LiteralLike => InitClass::LiteralLike,
              other => other,
            },
          };
          match c {
            InitClass::LiteralLike | InitClass::Placeholder | InitClass::Function => {}
            other => worst = other,
          }
        }
        worst
      }
      Arrow(_) | Fn(_) => InitClass::Function,
      Ident(_) => InitClass::Leavable("identifier"),
      Member(_) => InitClass::Leavable("member-access"),
      Bin(_) => InitClass::Leavable("binary"),
      Cond(_) => InitClass::Leavable("conditional"),
      Unary(_) => InitClass::Leavable("unary"),
      Update(_) => InitClass::Leavable("update"),
      Await(_) => InitClass::Leavable("await"),
      TsNonNull(_) => InitClass::Leavable("non-null"),
      This(_) => InitClass::Leavable("this"),
      Call(_) => InitClass::Other("call"),
      New(_) => InitClass::Other("new"),
      _ => InitClass::Other("expression"),
    }
  }
  impl Visit for V<'_> {
    fn visit_function(&mut self, f: &swc::Function) {
      // every function-like other than constructors and setters has an explicit return type
      self.check_params(f.params.iter().map(|p| &p.pat), "function");
      if f.params.iter().any(|p| !p.decorators.is_empty()) || !f.decorators.is_empty() {
        self.fails.push(("decorator-survives".into(), "function".into()));
      }
      f.visit_children_with(self);
    }
    fn visit_fn_decl(&mut self, f: &swc::FnDecl) {
      if f.declare {
        return;
      }
      if f.function.body.is_some() && f.function.return_type.is_none() {
        self.fails.push(("function-without-return-type".into(), format!("function {}", f.ident.sym)));
      }
      self.check_body(&f.function.body, &format!("function {}", f.ident.sym), false);
      f.visit_children_with(self);
    }
    fn visit_fn_expr(&mut self, f: &swc::FnExpr) {
      if f.function.return_type.is_none() {
        self.fails.push(("function-without-return-type".into(), "function expression".into()));
      }
      self.check_body(&f.function.body, "function expression", false);
      f.visit_children_with(self);
    }
    fn visit_arrow_expr(&mut self, a: &swc::ArrowExpr) {
      self.check_params(a.params.iter(), "arrow function");
      match &*a.body {
        swc::BlockStmtOrExpr::BlockStmt(b) => {
          if a.return_type.is_none() {
            self.fails.push(("function-without-return-type".into(), "arrow function".into()));
          }
          self.check_body(&Some(b.clone()), "arrow function", false);
        }
        swc::BlockStmtOrExpr::Expr(e) => {
          if a.return_type.is_none() {
            // an expression body that was left in place
            self.check_init(e, "arrow function body");
          } else if !is_placeholder(e) {
            self.fails.push(("function-body-keeps-logic".into(), "arrow function with a return type keeps its expression".into()));
          }
        }
      }
      a.visit_children_with(self);
    }
    fn visit_class_method(&mut self, m: &swc::ClassMethod) {
      let name = format!("method {}", self.x.class("", &swc::Class { body: vec![], ..Default::default() }).len());
      let _ = name;
      if m.accessibility == Some(swc::Accessibility::Private) {
        self.fails.push(("private-method-keeps-signature".into(), "a TypeScript-private method is still a method".into()));
      }
      if m.kind != swc::MethodKind::Setter && m.function.return_type.is_none() && m.function.body.is_some() {
        self.fails.push(("function-without-return-type".into(), "method".into()));
      }
      self.check_body(&m.function.body, "method", false);
      m.visit_children_with(self);
    }
    fn visit_constructor(&mut self, k: &swc::Constructor) {
      let pats: Vec<&swc::Pat> = k.params.iter().filter_map(|p| match p { swc::ParamOrTsParamProp::Param(p) => Some(&p.pat), _ => None }).collect();
      if pats.len() != k.params.len() {
        self.fails.push(("parameter-property-survives".into(), "constructor".into()));
      }
      self.check_params(pats.into_iter(), "constructor");
      self.check_body(&k.body, "constructor", true);
      k.visit_children_with(self);
    }
    fn visit_class_prop(&mut self, p: &swc::ClassProp) {
      if p.accessibility == Some(swc::Accessibility::Private) {
        let any = p.type_ann.as_ref().map(|t| matches!(&*t.type_ann, swc::TsType::TsKeywordType(k) if k.kind == swc::TsKeywordTypeKind::TsAnyKeyword)).unwrap_or(false);
        if !any || p.value.is_some() {
          self.fails.push(("private-member-not-reduced-to-any".into(), "property".into()));
        }
      } else if let Some(v) = &p.value {
        if p.type_ann.is_some() {
          self.fails.push(("typed-property-keeps-initialiser".into(), "property".into()));
        }
        self.check_init(v, "class property");
      } else if p.type_ann.is_none() {
        self.fails.push(("property-without-type-or-initialiser".into(), "property".into()));
      }
      if !p.decorators.is_empty() {
        self.fails.push(("decorator-survives".into(), "property".into()));
      }
      p.visit_children_with(self);
    }
    fn visit_private_prop(&mut self, p: &swc::PrivateProp) {
      if &*p.key.name != "private" || p.value.is_some() {
        self.fails.push(("ecmascript-private-member-survives".into(), format!("#{}", p.key.name)));
      }
    }
    fn visit_private_method(&mut self, p: &swc::PrivateMethod) {
      self.fails.push(("ecmascript-private-member-survives".into(), format!("#{}", p.key.name)));
    }
    fn visit_static_block(&mut self, _: &swc::StaticBlock) {
      self.fails.push(("static-block-survives".into(), "class".into()));
    }
    fn visit_class(&mut self, c: &swc::Class) {
      if !c.decorators.is_empty() {
        self.fails.push(("decorator-survives".into(), "class".into()));
      }
      c.visit_children_with(self);
    }
    // ambient declarations have nothing to erase: they are left as they are
    fn visit_class_decl(&mut self, c: &swc::ClassDecl) {
      if !c.declare {
        c.visit_children_with(self);
      }
    }
    fn visit_ts_module_decl(&mut self, m: &swc::TsModuleDecl) {
      if !m.declare {
        m.visit_children_with(self);
      }
    }
    fn visit_var_decl(&mut self, v: &swc::VarDecl) {
      if !v.declare {
        v.visit_children_with(self);
      }
    }
    fn visit_var_declarator(&mut self, d: &swc::VarDeclarator) {
      let typed = match &d.name {
        swc::Pat::Ident(b) => b.type_ann.is_some(),
        _ => false,
      };
      match &d.init {
        Some(i) if typed => {
          if !is_placeholder(i) {
            self.fails.push(("typed-variable-keeps-initialiser".into(), self.x.pat(&d.name)));
          }
        }
        Some(i) => self.check_init(i, "variable"),
        None => {
          if !typed {
            self.fails.push(("variable-without-type-or-initialiser".into(), self.x.pat(&d.name)));
          }
        }
      }
      d.visit_children_with(self);
    }
  }
  let mut v = V { fails: vec![], x: &x, in_class_private: false };
  let _ = v.in_class_private;
  parsed.program_ref().visit_with(&mut v);
  for (shape, what) in v.fails {
    report.fail("oracle", &shape, format!("{}: {}", url, what), replay.clone());
  }
}

/// the public member signatures of an emitted class keep their name, staticness and accessibility
/// the documented normalisation of defaulted parameters: in the trailing run of optional, defaulted
/// and rest parameters a defaulted parameter becomes optional (`p?: T`), before it `p: T | undefined`
pub fn param_optionality_oracle(report: &mut Report, url: &str, d: &Decl, parsed: &deno_ast::ParsedSource, replay: &serde_json::Value) {
  let DeclKind::Function { f, overloads: 0 } = &d.kind else { return };
  let deno_ast::ProgramRef::Module(module) = parsed.program_ref() else { return };
  let func = module.body.iter().find_map(|item| match item {
    swc::ModuleItem::ModuleDecl(swc::ModuleDecl::ExportDecl(e)) => match &e.decl {
      swc::Decl::Fn(fd) if fd.ident.sym.as_str() == d.name => Some(&fd.function),
      _ => None,
    },
    swc::ModuleItem::ModuleDecl(swc::ModuleDecl::ExportDefaultDecl(e)) => match &e.decl {
      swc::DefaultDecl::Fn(fe) => Some(&fe.function),
      _ => None,
    },
    swc::ModuleItem::Stmt(swc::Stmt::Decl(swc::Decl::Fn(fd))) if fd.ident.sym.as_str() == d.name => Some(&fd.function),
    _ => None,
  });
  let Some(func) = func else { return };
  if func.params.len() != f.params.len() {
    return;
  }
  for (k, p) in f.params.iter().enumerate() {
    if p.dflt.is_none() || p.rest {
      continue;
    }
    let in_trailing_run = f.params[k..].iter().all(|q| q.opt || q.dflt.is_some() || q.rest);
    // a retained default (`p = 1`) is neither form
    let swc::Pat::Ident(b) = &func.params[k].pat else { continue };
    let ty = b.type_ann.as_ref().map(|t| crate::fcgen::strip_ws(deno_ast::SourceRangedForSpanned::text_fast(&*t.type_ann, parsed.text_info_lazy()))).unwrap_or_default();
    let ok = if in_trailing_run { b.id.optional } else { !b.id.optional && ty.ends_with("|undefined") };
    report.count(if in_trailing_run { "defaulted-parameter:in-trailing-optional-run" } else { "defaulted-parameter:before-a-required-one" });
    if !ok {
      report.fail(
        "oracle",
        "defaulted-parameter-normalised-wrongly",
        format!(
          "{}: parameter `{}` of `{}` has a default and {}; it is emitted as `{}{}: {}`",
          url,
          p.name,
          d.name,
          if in_trailing_run { "only optional, defaulted or rest parameters follow: it should be optional" } else { "a required parameter follows: it should be required with `| undefined`" },
          b.id.sym,
          if b.id.optional { "?" } else { "" },
          ty
        ),
        replay.clone(),
      );
    }
  }
}

pub fn member_signature_oracle(report: &mut Report, url: &str, d: &Decl, tok: &str, replay: &serde_json::Value) {
  if let DeclKind::Class { members, .. } = &d.kind {
    let segs: Vec<&str> = tok.split(" | ").collect();
    // a parameter property is a member of the class: `constructor(public readonly a: T)` declares `a`
    for m in members {
      let Member::Ctor { params, .. } = m else { continue };
      for (p, prop) in params {
        let Some((access, ro)) = prop else { continue };
        let mine: Vec<&&str> = segs.iter().filter(|s| s.starts_with("prop ") && s.split(|c: char| !(c.is_alphanumeric() || c == '_')).any(|w| w == p.name)).collect();
        if mine.is_empty() {
          report.fail("oracle", "public-member-dropped", format!("{}: parameter property {} of class {} is not in the emitted class: {}", url, p.name, d.name, tok), replay.clone());
          continue;
        }
        for seg in mine {
          let words: Vec<&str> = seg.split(' ').collect();
          let acc = if words.contains(&"priv") { Access::Priv } else if words.contains(&"prot") { Access::Prot } else { Access::Pub };
          if acc != *access || (*access != Access::Priv && words.contains(&"readonly") != *ro) {
            report.fail("oracle", "member-accessibility-changed", format!("{}: parameter property {} ({:?}, readonly {}) is emitted as `{}`", url, p.name, access, ro, seg), replay.clone());
          }
        }
      }
    }
    for m in members {
      let (name, access, is_static) = match m {
        Member::Prop { name, access, is_static, .. } => (name, *access, *is_static),
        Member::Method { name, access, is_static, .. } => (name, *access, *is_static),
        Member::Accessor { name, access, is_static, .. } => (name, *access, *is_static),
        _ => continue,
      };
      let mine: Vec<&&str> = segs
        .iter()
        .filter(|s| (s.starts_with("prop ") || s.starts_with("method ")) && s.split(|c: char| !(c.is_alphanumeric() || c == '_')).any(|w| w == name))
        .filter(|s| {
          // the member's own segment: the name is followed by `:`, `(`, `?` or `=`
          s.find(&format!("{}:", name)).or(s.find(&format!("{}(", name))).or(s.find(&format!("{}?", name))).or(s.find(&format!("{}=", name))).is_some()
        })
        .collect();
      if access == Access::Priv {
        // private members are reduced to `any` properties, one per name
        continue;
      }
      if mine.is_empty() {
        if access != Access::Priv {
          report.fail("oracle", "public-member-dropped", format!("{}: member {} of class {} is not in the emitted class: {}", url, name, d.name, tok), replay.clone());
        }
        continue;
      }
      for seg in mine {
        let words: Vec<&str> = seg.split(' ').collect();
        if words.contains(&"static") != is_static {
          report.fail("oracle", "member-staticness-changed", format!("{}: member {} (static: {}) is emitted as `{}`", url, name, is_static, seg), replay.clone());
        }
        let acc = if words.contains(&"priv") { Access::Priv } else if words.contains(&"prot") { Access::Prot } else { Access::Pub };
        if acc != access {
          report.fail("oracle", "member-accessibility-changed", format!("{}: member {} ({:?}) is emitted as `{}`", url, name, access, seg), replay.clone());
        }
      }
    }
  }
}

pub fn run(tier: &str, seed: u64) -> Report {
  let mut report = Report::new("C10");
  report.rule = "generated declarations (functions with required / optional / defaulted / rest parameters, typed or not, return type explicit, \
    inferable as void, or missing, async and generator; variables typed, literal, `as T`, template, leavable expression, call/new, arrow and \
    function-expression initialisers; classes with public / protected / private / #private properties and methods, accessors, parameter \
    properties, private constructors, static blocks, duplicate private methods), one per package so that each gets its own verdict: \
    fast check's emitted declaration (or diagnostic) against the Lean model of the transform, token by token; and the statement's clauses \
    checked on the syntax tree of every emitted module (bodies empty or placeholder, no statement besides declarations, every parameter \
    typed or defaulted, explicit return types, private members `any`, no #private member besides the brand, no decorator); the same tree \
    checks on the output of every fast-check spec package; non-trivial = distinct (declaration kind, outcome, feature) classes"
    .into();
  crate::build::quiet_panics();
  let mut rng = Rng::new(seed ^ 0xC10);
  let mut batch = Batch::new();
  let n = if tier == "thorough" { 30000 } else { 3000 };
  let cx = gen_ctx();
  for i in 0..n {
    let p_bad = [0, 10, 30][i % 3];
    let d = gen_decl(&mut rng, &cx, format!("d{}", i), true, p_bad);
    let Some(req) = erase_request(&d) else {
      // declaration kinds the model of the transform does not cover (namespaces, interfaces, type
      // aliases, enums): the statement's clauses are checked on the emitted tree
      if matches!(d.kind, DeclKind::Namespace { .. }) {
        let w = single_decl_world(&d);
        let replay = json!({"decl": describe_decl(&d), "world": w.describe()});
        report.evaluations += 1;
        let r = run_fast_check(&w, None, false);
        let url = FcWorld::url(&w.pkgs[0], "/mod.ts");
        match r.slots.get(&url) {
          Some(FcSlot::Module { text, .. }) => {
            logic_oracle(&url, text, &mut report, &replay);
            if text.contains("inside a namespace") {
              report.fail("oracle", "non-declaration-statement-survives", format!("{}: a statement inside the namespace survives\n{}", url, text), replay.clone());
            }
            report.count("namespace:emitted");
            report.nontrivial.insert(format!("namespace/ok/{}", render_decl(&d).lines().next().unwrap_or("").matches('.').count()));
          }
          Some(FcSlot::Diagnostics(_)) => report.count("namespace:diagnostic"),
          _ => report.fail("oracle", "no-fast-check-result", "namespace declaration".into(), replay),
        }
      }
      continue;
    };
    let w = single_decl_world(&d);
    let replay = json!({"decl": describe_decl(&d), "world": w.describe()});
    batch.descs.push(replay.clone());
    report.evaluations += 1;
    let r = run_fast_check(&w, None, false);
    if !r.graph_errors.is_empty() {
      report.fail("oracle", "generated-package-does-not-build", r.graph_errors.join(" | "), replay);
      continue;
    }
    let url = FcWorld::url(&w.pkgs[0], "/mod.ts");
    let kind = match &d.kind {
      DeclKind::Function { .. } => "function",
      DeclKind::Var { .. } => "variable",
      DeclKind::Class { .. } => "class",
      _ => "other",
    };
    match r.slots.get(&url) {
      Some(FcSlot::Module { text, .. }) => {
        logic_oracle(&url, text, &mut report, &replay);
        match fcx::parse(&url, text) {
          Ok(parsed) => {
            let x = fcx::X { src: &parsed };
            let toks = x.decl_tokens();
            let tok = toks.iter().find(|(n, _)| *n == d.name).map(|(_, t)| t.clone()).unwrap_or("ABSENT".into());
            batch.push(req, tok.clone(), false);
            member_signature_oracle(&mut report, &url, &d, &tok, &replay);
            param_optionality_oracle(&mut report, &url, &d, &parsed, &replay);
            report.count(&format!("{}:emitted", kind));
            report.nontrivial.insert(format!("{}/ok/{}", kind, feature_class(&tok)));
          }
          Err(_) => batch.push(req, "UNPARSABLE".into(), false),
        }
      }
      Some(FcSlot::Diagnostics(ds)) => {
        let code = ds.first().map(|d| d.split(':').next().unwrap().to_string()).unwrap_or_default();
        batch.push(req, format!("DIAG:{}", code), false);
        report.count(&format!("{}:diagnostic:{}", kind, code));
        report.nontrivial.insert(format!("{}/diag/{}", kind, code));
      }
      other => {
        report.fail("oracle", "no-fast-check-result", format!("{:?}", other.map(|_| "none")), replay);
      }
    }
    if i < 3 {
      report.sample(json!({"decl": describe_decl(&d)}));
    }
  }
  // spec corpus: the tree checks on every emitted module
  let mut files = vec![];
  if let Ok(rd) = std::fs::read_dir("/repo/tests/specs/graph/fast_check") {
    for e in rd.flatten() {
      let p = e.path();
      if p.extension().map(|x| x == "txt").unwrap_or(false) {
        files.push(p);
      }
    }
  }
  files.sort();
  let mut corpus_modules = 0u64;
  for f in &files {
    let Some(w) = corpus_world(f) else { continue };
    let r = run_fast_check(&w, None, false);
    let replay = json!({"spec_file": f.to_string_lossy()});
    for (u, s) in &r.slots {
      if let FcSlot::Module { text, .. } = s {
        corpus_modules += 1;
        report.evaluations += 1;
        logic_oracle(u, text, &mut report, &replay);
      }
    }
  }
  report.count_n("corpus-emitted-modules", corpus_modules);
  report.exhaustive.push(format!("tree checks on the fast-check output of all {} spec packages under tests/specs/graph/fast_check", files.len()));
  // shape corpus: one declaration form per package, each with executable logic in it; the statement's
  // clauses on whatever is emitted
  {
    let mut emitted = 0u64;
    for (name, w) in shape_worlds() {
      let r = run_fast_check(&w, None, false);
      let replay = json!({"shape": name, "world": w.describe()});
      report.evaluations += 1;
      for (u, sl) in &r.slots {
        if let FcSlot::Module { text, .. } = sl {
          emitted += 1;
          logic_oracle(u, text, &mut report, &replay);
        }
      }
    }
    report.count_n("shape-corpus-emitted-modules", emitted);
  }
  // the leavable analysis on generated expression trees, against DG/Leave.lean and the statement
  {
    let mut rr = Rng::new(seed ^ 0xC10_1EA);
    crate::leave::leavable_part(&mut report, &mut batch, &mut rr, if tier == "thorough" { 6000 } else { 600 });
  }
  batch.finish(&mut report, "C10");
  report
}

/// One package per declaration form that carries executable logic (bodies, initialisers, static
/// blocks, decorators, statements): fully annotated, so each is emitted, and nothing of the logic may
/// be left.
pub fn shape_worlds() -> Vec<(String, FcWorld)> {
  let forms: Vec<(&str, &str)> = vec![
    ("function with loops and try", "export function f(n: number): number { let s = 0; for (let i = 0; i < n; i++) { try { s += i; } catch { s = 0; } } while (s > 10) s--; return s; }\n"),
    ("async function and generator", "export async function f(x: string): Promise<string> { await Promise.resolve(); return x + \"!\"; }\nexport function* g(n: number): Generator<number, void, unknown> { for (let i = 0; i < n; i++) yield i; }\nexport async function* h(): AsyncGenerator<number> { yield 1; }\n"),
    ("arrow and function expression constants", "export const a = (x: number): number => { console.log(x); return x * 2; };\nexport const b = function (x: string): string { return x.trim(); };\nexport const c = async (x: number): Promise<void> => { await fetch(\"\" + x); };\n"),
    ("class with constructor, super call and methods", "class Base { constructor(public n: number) {} }\nexport class A extends Base { v: string; constructor(n: number, v: string) { super(n + 1); this.v = v.trim(); console.log(n); } m(x: number): number { if (x > 0) { return x; } return -x; } static s(): void { A.count++; } static count: number = 0; }\n"),
    ("getters and setters with bodies", "export class A { #v = 1; get v(): number { return this.#v * 2; } set v(x: number) { this.#v = x / 2; } static get z(): string { return [1, 2].join(\",\"); } }\n"),
    ("static block and private members", "export class A { static #count = 0; static { A.#count = compute(); } private p: number = compute(); private m(): void { console.log(1); } #q(): number { return 1; } pub(): number { return this.#q() + this.p; } }\nfunction compute(): number { return 1; }\n"),
    ("decorated class", "function dec(t: unknown, c: unknown): void {}\n@dec export class A { @dec m(): void { console.log(1); } @dec accessor v: number = 1; }\n"),
    ("parameter properties and defaults", "export class A { constructor(public a: number = 1, protected readonly b: string = \"x\", private c: boolean = compute() > 0) { console.log(a); } }\nfunction compute(): number { return 1; }\n"),
    ("namespace with functions and nested namespace", "export namespace N { export function f(x: number): number { return x + helper(); } function helper(): number { return 1; } export namespace M { export const v: number = 1; export class K { m(): void { f(1); } } } }\n"),
    ("enum with computed members", "export enum E { A = 1, B = A * 2, C = \"x\".length }\nexport const enum F { X = 1 << 2, Y = X | 1 }\n"),
    ("default exported function", "export default function main(argv: string[]): number { for (const a of argv) { console.log(a); } return argv.length; }\n"),
    ("default exported class", "export default class { v: number = 1; m(): string { return String(this.v); } }\n"),
    ("default exported annotated expression", "const table: Record<string, number> = { a: compute() };\nexport default table;\nfunction compute(): number { return 1; }\n"),
    ("top-level statements besides declarations", "export const v: number = 1;\nconsole.log(v);\nif (v > 0) { console.log(\"pos\"); }\nfor (const x of [1, 2]) { console.log(x); }\nlabel: { break label; }\n"),
    ("object and array initialisers with annotation", "export const o: { a: number; f(): void } = { a: compute(), f() { console.log(1); } };\nexport const l: number[] = [compute(), 2].map((x) => x + 1);\nfunction compute(): number { return 1; }\n"),
    ("overloads with implementation body", "export function f(x: number): number;\nexport function f(x: string): string;\nexport function f(x: number | string): number | string { if (typeof x === \"number\") { return x + 1; } return x.trim(); }\n"),
    ("method overloads and optional methods", "export class A { m(x: number): number; m(x: string): string; m(x: number | string): number | string { return x; } opt?(): void; }\n"),
    ("abstract class with concrete members", "export abstract class A { abstract a(): void; b(): number { return compute(); } protected c: number = compute(); }\nfunction compute(): number { return 1; }\n"),
    ("symbol-keyed and computed methods", "export class A { [Symbol.iterator](): Iterator<number> { let i = 0; return { next: () => ({ done: i > 2, value: i++ }) }; } [\"quoted\"](): void { console.log(1); } }\n"),
    ("exported variables of several kinds", "export let a: number = compute();\nexport var b: string = String(compute());\nexport const c: readonly number[] = Object.freeze([compute()]);\nfunction compute(): number { return 1; }\n"),
    ("class expression constant with annotation", "interface K { new (): { m(): void } }\nexport const A: K = class { m(): void { console.log(1); } };\n"),
    ("declare and ambient forms next to code", "export declare function d(x: number): void;\nexport declare const dc: number;\nexport function f(): void { d(dc); }\n"),
  ];
  forms
    .into_iter()
    .map(|(name, text)| {
      (
        name.to_string(),
        FcWorld {
          main: "import * as a from \"jsr:@s/a@1\";\n".into(),
          pkgs: vec![FcPackage { name: "@s/a".into(), version: "1.0.0".into(), exports: vec![(".".into(), "./mod.ts".into())], files: vec![("/mod.ts".into(), text.to_string())] }],
        },
      )
    })
    .collect()
}

fn feature_class(tok: &str) -> String {
  let mut f = vec![];
  for (k, n) in [("?:", "opt"), ("|undefined", "nullable"), ("...", "rest"), ("{R}", "ret"), ("{}", "void"), ("=N", "never"), ("arrow", "arrow"), ("brand", "brand"), ("priv", "priv"), ("declare", "declare"), ("ctor", "ctor"), ("get ", "get"), ("set ", "set")] {
    if tok.contains(k) {
      f.push(n);
    }
  }
  f.join("+")
}

/// a spec file as a world: registry files from its `# https://jsr.io/...` sections
pub fn corpus_world(path: &std::path::Path) -> Option<FcWorld> {
  let text = std::fs::read_to_string(path).ok()?;
  let mut sections: Vec<(String, String)> = vec![];
  let mut name: Option<String> = None;
  let mut body = String::new();
  for line in text.lines() {
    if let Some(h) = line.strip_prefix("# ") {
      if let Some(n) = name.take() {
        sections.push((n, std::mem::take(&mut body)));
      }
      body.clear();
      name = Some(h.trim().to_string());
    } else if name.is_some() {
      body.push_str(line);
      body.push('\n');
    }
  }
  if let Some(n) = name.take() {
    sections.push((n, body));
  }
  let mut w = FcWorld::default();
  let mut metas: Vec<(String, String, serde_json::Value)> = vec![];
  for (n, b) in &sections {
    if let Some(rest) = n.strip_prefix("https://jsr.io/") {
      if rest.ends_with("_meta.json") {
        let (name, file) = rest.rsplit_once('/')?;
        let version = file.strip_suffix("_meta.json")?;
        metas.push((name.to_string(), version.to_string(), serde_json::from_str(b).ok()?));
      }
    }
  }
  for (name, version, meta) in metas {
    let mut p = FcPackage { name: name.clone(), version: version.clone(), exports: vec![], files: vec![] };
    match &meta["exports"] {
      serde_json::Value::String(s) => p.exports.push((".".into(), s.clone())),
      serde_json::Value::Object(o) => {
        for (k, v) in o {
          p.exports.push((k.clone(), v.as_str()?.to_string()));
        }
      }
      _ => {}
    }
    let prefix = format!("https://jsr.io/{}/{}", name, version);
    for (n, b) in &sections {
      if let Some(path) = n.strip_prefix(&prefix) {
        if path.starts_with('/') {
          p.files.push((path.to_string(), b.clone()));
        }
      }
    }
    w.pkgs.push(p);
  }
  if w.pkgs.is_empty() {
    return None;
  }
  let main = sections.iter().find(|(n, _)| n == "mod.ts" || n == "file:///mod.ts").map(|x| x.1.clone());
  w.main = main.unwrap_or_else(|| w.pkgs.iter().map(|p| format!("import 'jsr:{}@{}';\n", p.name, p.version)).collect());
  Some(w)
}
