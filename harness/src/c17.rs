//! C17 — pruning types from a full graph gives the code-only graph.
use crate::absworld::*;
use crate::build::*;
use crate::c01::MODEL_FUEL;
use crate::c01::same_attribute_proviso;
use crate::c01::world_cfg;
use crate::dump::Ctx;
use crate::report::*;
use crate::rng::Rng;
use crate::walkprops::Batch;
use crate::world::*;
use deno_graph::GraphKind;
use deno_graph::Module;
use deno_graph::ModuleGraph;
use deno_graph::ModuleSpecifier;
use deno_graph::Resolution;
use serde_json::json;
use std::collections::BTreeMap;
use std::collections::BTreeSet;

/// observation of C17: kinds, redirects, code edges
pub fn obs(g: &ModuleGraph) -> (BTreeMap<String, String>, BTreeMap<String, String>, BTreeMap<String, Vec<String>>) {
  let mut kinds = BTreeMap::new();
  let mut edges = BTreeMap::new();
  for (k, slot, _) in g.verif_slots() {
    let v = match slot {
      None => "pending".to_string(),
      Some(Err(e)) => format!("error:{}", err_kind(e).0),
      Some(Ok(m)) => {
        let mut es = vec![];
        for (t, d) in m.dependencies() {
          let target = match &d.maybe_code {
            Resolution::Ok(ok) => ok.specifier.to_string(),
            Resolution::Err(e) => format!("error:{}", e),
            // a dependency without a code side (left over from a type-only import) is not a code edge
            Resolution::None => continue,
          };
          es.push(format!("{} -> {} dyn={}", t, target, d.is_dynamic));
        }
        // the statement compares the *set* of code edges; their order follows first mention, which a
        // type-only import of the same specifier legitimately changes
        es.sort();
        edges.insert(k.to_string(), es);
        match m {
          Module::Js(js) => format!("js:{:?}", js.media_type),
          Module::Json(_) => "json".into(),
          Module::Wasm(_) => "wasm".into(),
          Module::Npm(_) => "npm".into(),
          Module::Node(_) => "node".into(),
          Module::External(_) => "external".into(),
        }
      }
    };
    kinds.insert(k.to_string(), v);
  }
  let redirects = g.redirects.iter().map(|(a, b)| (a.to_string(), b.to_string())).collect();
  (kinds, redirects, edges)
}

fn type_edge_targets(g: &ModuleGraph) -> BTreeSet<String> {
  let mut out = BTreeSet::new();
  for gi in g.imports.values() {
    for d in gi.dependencies.values() {
      if let Some(s) = d.maybe_type.maybe_specifier() {
        out.insert(s.to_string());
      }
    }
  }
  for m in g.modules() {
    for d in m.dependencies().values() {
      if let Some(s) = d.maybe_type.maybe_specifier() {
        out.insert(s.to_string());
      }
    }
    if let Some(td) = m.maybe_types_dependency() {
      if let Some(s) = td.dependency.maybe_specifier() {
        out.insert(s.to_string());
      }
    }
  }
  out
}

/// graphs that carry fast check data - modules and, for packages with a slow type, diagnostics:
/// pruning removes all of it
fn fast_check_prune_part(report: &mut Report, rng: &mut Rng, n: usize) {
  use crate::fc::*;
  use crate::fcgen::*;
  for i in 0..n {
    let mut pr = rng.fork();
    let mut pkg = crate::c09::gen_pkg(&mut pr, i);
    if i % 2 == 0 {
      // an exported function without a return type: the package gets diagnostics instead of modules
      let d = Decl {
        name: format!("slow{}", i),
        exported: true,
        is_default: false,
        kind: DeclKind::Function { f: Fn { params: vec![], ret: None, is_async: false, is_gen: false, analysis: RetAnalysis::Single }, overloads: 0 },
        sig_refs: vec![],
        body_refs: vec![],
        generics: String::new(),
      };
      pkg.files[0].items.insert(0, Item::Decl(d));
    }
    let w = crate::c09::world_of(&pkg);
    for workspace in [false, true] {
      let run = if workspace { run_fast_check_workspace(&w, None) } else { run_fast_check(&w, None, false) };
      let with_modules = run.slots.values().filter(|s| matches!(s, FcSlot::Module { .. })).count();
      let with_diags = run.slots.values().filter(|s| matches!(s, FcSlot::Diagnostics(_))).count();
      report.evaluations += 1;
      let mut pruned = run.graph.clone();
      pruned.prune_types();
      let left: Vec<String> = pruned.modules().filter_map(|m| m.js()).filter(|js| js.fast_check.is_some()).map(|js| js.specifier.to_string()).collect();
      if !left.is_empty() {
        report.fail(
          "oracle",
          "pruned-keeps-types-dependency",
          format!("after prune_types() {} module(s) still carry fast check data ({} had modules, {} had diagnostics before): {:?}", left.len(), with_modules, with_diags, left),
          json!({"fast_check_world": w.describe(), "workspace_member": workspace}),
        );
      }
      report.count(&format!("fast-check-then-prune:{}", if with_diags > 0 { "diagnostics" } else if with_modules > 0 { "modules" } else { "none" }));
    }
  }
}

/// which known defects can be at work in a world (each identified by what triggers it)
fn known_triggers(w: &World, k1: &BTreeMap<String, String>, k2: &BTreeMap<String, String>, full: &ModuleGraph) -> Vec<&'static str> {
  let on_redirect_cycle = |k: &str| -> bool {
    let Ok(mut cur) = ModuleSpecifier::parse(k) else { return false };
    for _ in 0..40 {
      match w.spec_index(&cur).map(|i| &w.resp[i]) {
        Some(Resp::Redirect(t)) => cur = w.specs[*t].clone(),
        _ => return false,
      }
    }
    true
  };
  let has_item = |f: &dyn Fn(&Form) -> bool| {
    w.resp.iter().any(|r| matches!(r, Resp::Module { items, .. } if items.iter().any(|it| f(&it.form))))
  };
  let mut triggers: Vec<&'static str> = vec![];
  // (F15, "code-only-build-loads-configured-type-imports", was repaired: a graph that does not
  // include types ignores the configured imports; worlds with them are no longer set aside)
  // (F16, "source-map-entry-dropped-by-prune", was repaired: prune_types keeps what a module's
  // source map resolves to; worlds with source maps are no longer set aside)
  if w.opts.skip_dynamic_deps {
    triggers.push("prune-keeps-target-of-skipped-dynamic-import"); // F17
  }
  // a redirect cycle, or a chain with more hops than the loader's limit: where the count runs out
  // depends on where the build enters the chain
  if (0..w.specs.len()).any(|i| on_redirect_cycle(w.specs[i].as_str())) || crate::world::redirect_budget_exceedable(w) {
    triggers.push("too-many-redirects-entry-depends-on-entry-point"); // F18
  }
  let cls_err = |m: &BTreeMap<String, String>| {
    m.values().any(|v| matches!(v.as_str(), "error:sourcePhase" | "error:unsupportedAttr" | "error:unsupportedMedia" | "error:invalidTypeAssertion"))
  };
  // a source map is requested as an asset as well: when its URL names a specifier that the full
  // build settled as something other than the asset stand-in (a type edge loaded it as a module
  // first), the code-only build has the stand-in there
  let source_map_names_module = full.modules().filter_map(|m| m.js()).any(|js| {
    js.maybe_source_map_dependency.as_ref().and_then(|d| d.dependency.maybe_specifier()).map_or(false, |t| {
      let r = full.resolve(t);
      !matches!(full.try_get(r), Ok(Some(Module::External(_))) | Ok(None))
    })
  });
  let asset_forms = source_map_names_module || has_item(&|f| match f {
    Form::SourcePhase => true,
    Form::With(a) | Form::DynamicWith(a) => matches!(a.as_str(), "text" | "bytes" | "css"),
    _ => false,
  });
  // an entry's kind (module / asset stand-in / classification error) is decided by the request
  // that reaches it first or last; type edges add such requests to the full build only
  if asset_forms || cls_err(k1) || cls_err(k2) || cls_err(&obs(full).0) {
    triggers.push("slot-classification-depends-on-first-edge"); // F6 / F14
  }
  triggers
}

/// what a lookup finds: the module's key, an error kind, or nothing
fn found(g: &ModuleGraph, s: &ModuleSpecifier) -> String {
  match g.try_get(s) {
    Ok(Some(m)) => format!("module:{}", m.specifier()),
    Ok(None) => "nothing".into(),
    Err(e) => format!("error:{}", err_kind(e).0),
  }
}

/// Graphs built on a redirect table filled in from a lockfile with stale entries (a specifier the
/// loader serves directly — and may report as the final specifier of another request — is listed as
/// a redirect source): pruning keeps the target of every code edge of a kept module, leaves no type
/// side anywhere, and gives the code-only build of the same roots on the same lockfile.
pub fn stale_lockfile_part(report: &mut Report, rng: &mut Rng, n: usize) {
  for wi in 0..n {
    let mut cfg = GenCfg::default();
    cfg.chain = Some(1 + wi % 4);
    let mut wr = rng.fork();
    let mut w = gen_world(&mut wr, &cfg);
    w.kind = GraphKind::All;
    // in half of the worlds one redirect answer x -> t becomes "the module of t, final specifier t":
    // a loader that follows redirects itself and reports where it ended up
    if wi % 2 == 0 {
      let cand = (0..w.resp.len()).find(|i| match &w.resp[*i] {
        Resp::Redirect(t) => matches!(&w.resp[*t], Resp::Module { final_spec, .. } if *final_spec == *t),
        _ => false,
      });
      if let Some(i) = cand {
        if let Resp::Redirect(t) = w.resp[i].clone() {
          w.resp[i] = w.resp[t].clone();
        }
      }
    }
    let seeds = crate::c14::stale_seeds(&w, &mut wr);
    if seeds.is_empty() {
      continue;
    }
    let build = |kind: GraphKind| -> Option<ModuleGraph> {
      let mut wk = w.clone();
      wk.kind = kind;
      let mut graph = ModuleGraph::new(kind);
      graph.fill_from_lockfile(deno_graph::FillFromLockfileOptions {
        redirects: seeds.iter().map(|(a, b)| (a.as_str(), b.as_str())),
        package_specifiers: std::iter::empty(),
      });
      let loader = ScriptedLoader::new(&wk);
      let roots = wk.roots.iter().map(|r| wk.specs[*r].clone()).collect::<Vec<_>>();
      crate::build::try_build(&wk, &loader, graph, roots).ok()
    };
    let (Some(full), Some(code)) = (build(GraphKind::All), build(GraphKind::CodeOnly)) else {
      report.count("stale-lockfile:skipped-build-failure");
      continue;
    };
    report.evaluations += 1;
    let desc = json!({"source": "built-world-with-lockfile-redirects", "lockfile_redirects": seeds, "world": w.describe(), "world_index": wi});
    let mut pruned = full.clone();
    pruned.prune_types();
    let entry_on_source = full.verif_slots().into_iter().any(|(k, _, _)| full.redirects.contains_key(k));
    report.count(if entry_on_source { "stale-lockfile:entry-under-redirect-source" } else { "stale-lockfile:no-entry-under-redirect-source" });
    // (a) no type side anywhere
    for m in pruned.modules() {
      for (t, d) in m.dependencies() {
        if !d.maybe_type.is_none() || d.maybe_deno_types_specifier.is_some() {
          report.fail("oracle", "pruned-keeps-type-resolution", format!("{} dependency {} still has a type side", m.specifier(), t), desc.clone());
        }
      }
      if let Module::Js(js) = m {
        if js.maybe_types_dependency.is_some() || js.fast_check.is_some() {
          report.fail("oracle", "pruned-keeps-types-dependency", format!("{} keeps a types dependency / fast-check data", m.specifier()), desc.clone());
        }
      }
    }
    // (b) the target of every code edge of a kept module is still what it was
    for m in pruned.modules() {
      for (t, d) in m.dependencies() {
        if let Some(target) = d.get_code() {
          let (a, b) = (found(&full, target), found(&pruned, target));
          if a != b {
            report.fail("oracle", "pruned-drops-target-of-code-edge", format!("{} imports {:?}: the full graph has {} there, the pruned graph {}", m.specifier(), t, a, b), desc.clone());
          }
        }
      }
    }
    // (c) equality with the code-only build on the same lockfile — where no entry sits under a
    // redirect source: such an entry exists only because some request reached the loader's answer
    // before the lockfile's redirect was consulted, and a type edge can be that request (then the
    // code-only build never makes it; this is outside what the statement quantifies over)
    if !same_attribute_proviso(&w) || entry_on_source {
      continue;
    }
    let (k1, r1, e1) = obs(&pruned);
    let (k2, r2, e2) = obs(&code);
    let mut diffs = vec![];
    for k in k1.keys().chain(k2.keys()).collect::<BTreeSet<_>>() {
      if k1.get(k) != k2.get(k) {
        diffs.push(format!("{}: pruned {:?} vs code-only {:?}", k, k1.get(k), k2.get(k)));
      }
    }
    // the lockfile's own entries are outside the statement (a build keeps every entry it was given,
    // used or not; pruning keeps those it reaches): redirects are compared without them
    let without_seeds = |r: &BTreeMap<String, String>| -> BTreeMap<String, String> {
      r.iter().filter(|(a, _)| !seeds.iter().any(|(s, _)| s == *a)).map(|(a, b)| (a.clone(), b.clone())).collect()
    };
    let (r1, r2) = (without_seeds(&r1), without_seeds(&r2));
    if r1 != r2 {
      diffs.push(format!("redirects (lockfile entries aside): pruned {:?} vs code-only {:?}", r1, r2));
    }
    for k in e1.keys() {
      if let (Some(a), Some(b)) = (e1.get(k), e2.get(k)) {
        if a != b {
          diffs.push(format!("{} code edges: pruned {:?} vs code-only {:?}", k, a, b));
        }
      }
    }
    if diffs.is_empty() {
      report.count("stale-lockfile:pruned-equals-code-only");
      continue;
    }
    let triggers = known_triggers(&w, &k1, &k2, &full);
    match triggers.len() {
      0 => report.fail("oracle", "pruned-graph-differs-from-code-only-build", diffs.join("\n"), desc.clone()),
      1 => report.fail("oracle", triggers[0], diffs.join("\n"), desc.clone()),
      _ => report.count("info:differs-with-several-known-defect-triggers-present (not attributed)"),
    }
  }
}

pub fn run(tier: &str, seed: u64) -> Report {
  let mut report = Report::new("C17");
  report.rule = "generated worlds (as C01, same-type-attribute proviso enforced for the oracle) built with all dependency \
    kinds, pruned with prune_types, and built again code-only from the same roots: compared specifiers with module kinds / \
    error kinds, redirects, code edges with dynamic flags, valid() verdict, absence of type resolutions / types dependencies / \
    configured imports / fast-check data, reported graph kind; the Lean model builds + prunes the abstract world and must \
    equal the pruned implementation graph slot by slot; non-trivial = distinct (#slots before, #slots after, #type-only entries)"
    .into();
  quiet_panics();
  let mut rng = Rng::new(seed ^ 0xC17);
  let n = if tier == "thorough" { 12000 } else { 1500 };
  let mut batch = Batch::new();
  for wi in 0..n {
    let cfg = world_cfg(wi);
    let mut wr = rng.fork();
    let mut w = gen_world(&mut wr, &cfg);
    w.kind = if wi % 6 == 5 { GraphKind::TypesOnly } else { GraphKind::All };
    // type sides that do not resolve at all (a bare specifier): pruning removes those as well
    if wi % 3 == 1 {
      let specs = w.specs.clone();
      let mut added: Vec<(usize, Item)> = vec![];
      for (i, r) in w.resp.iter().enumerate() {
        if let Resp::Module { final_spec, .. } = r {
          if *final_spec != i {
            continue;
          }
          let ext = ext_of(&specs[i]);
          if is_typed_ext(&ext) && wr.chance(1, 2) {
            added.push((i, Item { form: Form::ImportType, text: "not-resolvable-types".into() }));
          } else if is_js_like_ext(&ext) && wr.chance(1, 3) {
            if let Some(t) = specs.iter().find(|t| is_js_like_ext(&ext_of(t)) && **t != specs[i]) {
              added.push((i, Item { form: Form::TsTypes("not-resolvable-pragma".into()), text: t.as_str().to_string() }));
            }
          }
        }
      }
      // every response that answers with module i's specifier carries module i's text (a consistent
      // loader), so the item goes into each of them
      for (i, it) in added {
        for r in w.resp.iter_mut() {
          if let Resp::Module { items, final_spec, .. } = r {
            if *final_spec == i {
              items.push(it.clone());
            }
          }
        }
      }
    }
    let desc = json!({"world": w.describe(), "world_index": wi});
    batch.descs.push(desc.clone());
    let mut ctx = Ctx::default();
    let req = build_request(&mut ctx, &w, &w.roots, MODEL_FUEL).replacen("(build ", "(prune ", 1);
    let loader = ScriptedLoader::new(&w);
    let Ok(full) = try_build_world(&w, &loader) else {
      report.count("skipped-build-failure");
      continue;
    };
    report.evaluations += 1;
    let before = full.verif_slots().len();
    let type_targets = type_edge_targets(&full);
    let mut pruned = full.clone();
    pruned.prune_types();
    if std::env::var("DGH_C17_WORLD").ok().and_then(|s| s.parse::<usize>().ok()) == Some(wi) {
      let mut wc = w.clone();
      wc.kind = GraphKind::CodeOnly;
      let lc = ScriptedLoader::new(&wc);
      let code = try_build_world(&wc, &lc).ok();
      eprintln!("FULL {}\nPRUNED {}\nCODE {}", serde_json::to_string(&full).unwrap(), serde_json::to_string(&pruned).unwrap(), code.map(|c| serde_json::to_string(&c).unwrap()).unwrap_or_default());
    }
    let mut shown = show_slots(&mut ctx, &pruned);
    shown.extend(show_redirects(&mut ctx, &pruned));
    batch.push(req, shown.join(" "), false);
    if wi < 1 {
      report.sample(json!({"world": w.describe(), "pruned": serde_json::to_value(&pruned).unwrap()}));
    }
    // ---- absence clauses (hold for every world) -------------------------------------------
    if pruned.graph_kind() != GraphKind::CodeOnly {
      report.fail("oracle", "pruned-graph-kind", format!("graph_kind() = {:?}", pruned.graph_kind()), desc.clone());
    }
    if !pruned.imports.is_empty() {
      report.fail("oracle", "pruned-keeps-configured-imports", "imports not cleared".into(), desc.clone());
    }
    // (a module stored under a redirect source included: since the repair of F36 prune_types visits
    // an entry before it looks at the redirect table)
    for m in pruned.modules() {
      for (t, d) in m.dependencies() {
        if !d.maybe_type.is_none() || d.maybe_deno_types_specifier.is_some() {
          report.fail("oracle", "pruned-keeps-type-resolution", format!("{} dependency {} still has a type side", m.specifier(), t), desc.clone());
        }
      }
      if let Module::Js(js) = m {
        if js.maybe_types_dependency.is_some() || js.fast_check.is_some() {
          report.fail("oracle", "pruned-keeps-types-dependency", format!("{} keeps a types dependency / fast-check data", m.specifier()), desc.clone());
        }
      }
    }
    if w.kind != GraphKind::All || cfg.allow_inconsistent_finals || !same_attribute_proviso(&w) {
      report.count("correspondence-only (types-only source graph / outside the proviso)");
      continue;
    }
    // ---- equality with the code-only build ------------------------------------------------------
    let mut wc = w.clone();
    wc.kind = GraphKind::CodeOnly;
    let loader_c = ScriptedLoader::new(&wc);
    let Ok(code) = try_build_world(&wc, &loader_c) else { continue };
    let (k1, r1, e1) = obs(&pruned);
    let (k2, r2, e2) = obs(&code);
    let mut diffs = vec![];
    let mut classification_only = true;
    // entries only the code-only build has, and why it has them
    let mut only_code: Vec<String> = vec![];
    let source_map_targets: BTreeSet<String> = code
      .modules()
      .filter_map(|m| match m {
        Module::Js(js) => js.maybe_source_map_dependency.as_ref().and_then(|d| d.dependency.maybe_specifier()).map(|s| s.to_string()),
        _ => None,
      })
      .collect();
    // source-map targets with the redirect hops behind them
    let source_map_targets: BTreeSet<String> = {
      let mut all = source_map_targets.clone();
      let mut frontier: Vec<String> = all.iter().cloned().collect();
      while let Some(x) = frontier.pop() {
        if let Some(t) = r2.get(&x) {
          if all.insert(t.clone()) {
            frontier.push(t.clone());
          }
        }
      }
      all
    };
    let on_redirect_cycle = |k: &str| -> bool {
      let Ok(mut cur) = ModuleSpecifier::parse(k) else { return false };
      for _ in 0..40 {
        match w.spec_index(&cur).map(|i| &w.resp[i]) {
          Some(Resp::Redirect(t)) => cur = w.specs[*t].clone(),
          _ => return false,
        }
      }
      true
    };
    let mut cycle_only = true;
    for k in k1.keys().chain(k2.keys()).collect::<BTreeSet<_>>() {
      if k1.get(k) != k2.get(k) {
        let tmr = |v: Option<&String>| v.map(|s| s == "error:tooManyRedirects").unwrap_or(true);
        if !(on_redirect_cycle(k) && tmr(k1.get(k)) && tmr(k2.get(k))) {
          cycle_only = false;
        }
        if !k1.contains_key(k) {
          only_code.push(k.clone());
        }
        diffs.push(format!("{}: pruned {:?} vs code-only {:?}", k, k1.get(k), k2.get(k)));
        // edge-dependent classification (finding F6): the specifier is the target of a type edge in
        // the full graph, so the full build may have classified it from that edge first
        let is_cls_err = |v: Option<&String>| {
          matches!(v.map(|s| s.as_str()), Some("error:sourcePhase") | Some("error:unsupportedAttr") | Some("error:unsupportedMedia") | Some("error:invalidTypeAssertion"))
        };
        let both = k1.contains_key(k) && k2.contains_key(k);
        // module on one side, classification error on the other: which request classified the entry
        // (or overwrote it last) differs between the two builds (findings F6 / F14)
        let module_vs_cls_error = both && (is_cls_err(k1.get(k)) != is_cls_err(k2.get(k)));
        if !(both && (type_targets.contains(k) || module_vs_cls_error)) {
          classification_only = false;
        }
      }
    }
    if r1 != r2 {
      diffs.push(format!("redirects: pruned {:?} vs code-only {:?}", r1, r2));
      classification_only = false;
    }
    for k in e1.keys() {
      if let (Some(a), Some(b)) = (e1.get(k), e2.get(k)) {
        if a != b {
          diffs.push(format!("{} code edges: pruned {:?} vs code-only {:?}", k, a, b));
          classification_only = false;
        }
      }
    }
    let v1 = pruned.valid().is_ok();
    let v2 = code.valid().is_ok();
    if v1 != v2 {
      diffs.push(format!("valid(): pruned {} vs code-only {}", v1, v2));
    }
    let _ = (classification_only, cycle_only, &only_code, &source_map_targets);
    if !diffs.is_empty() {
      let triggers = known_triggers(&w, &k1, &k2, &full);
      match triggers.len() {
        0 => report.fail("oracle", "pruned-graph-differs-from-code-only-build", diffs.join("\n"), desc.clone()),
        1 => report.fail("oracle", triggers[0], diffs.join("\n"), desc.clone()),
        _ => report.count("info:differs-with-several-known-defect-triggers-present (not attributed)"),
      }
    } else {
      report.count("pruned-equals-code-only");
    }
    let after = pruned.verif_slots().len();
    report.nontrivial.insert(format!("b{}a{}t{}", before.min(12), after.min(12), type_targets.len().min(6)));
    report.count(&format!("entries-removed-by-prune:{}", (before - after.min(before)).min(6)));
  }
  fast_check_prune_part(&mut report, &mut rng, if tier == "thorough" { 1000 } else { 120 });
  stale_lockfile_part(&mut report, &mut rng, if tier == "thorough" { 3000 } else { 400 });
  batch.finish(&mut report, "C17");
  report
}
