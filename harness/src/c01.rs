//! C01 — a built graph is exactly the dependency closure of its roots.
use crate::absworld::*;
use crate::build::*;
use crate::dump::Ctx;
use crate::report::*;
use crate::rng::Rng;
use crate::walkprops::Batch;
use crate::world::*;
use deno_graph::GraphKind;
use deno_graph::Module;
use deno_graph::ModuleGraph;
use deno_graph::ModuleSpecifier;
use deno_graph::Resolution;
use serde_json::json;
use std::collections::BTreeSet;
use std::collections::HashMap;
use std::collections::VecDeque;
use std::sync::Arc;

pub const MODEL_FUEL: usize = 600;

fn ok_spec(r: &Resolution) -> Option<&ModuleSpecifier> {
  match r {
    Resolution::Ok(ok) => Some(&ok.specifier),
    _ => None,
  }
}

/// what the module's source declares, by the public per-module analysis (independent of the builder)
pub fn declared(w: &World, i: usize) -> Option<Module> {
  let Resp::Module { final_spec, headers, .. } = &w.resp[i] else { return None };
  let hdrs: Option<HashMap<String, String>> = headers.as_ref().map(|h| h.iter().cloned().collect());
  block_on(deno_graph::parse_module(deno_graph::ParseModuleOptions {
    graph_kind: w.kind,
    specifier: w.specs[*final_spec].clone(),
    maybe_headers: hdrs,
    mtime: None,
    content: Arc::from(w.content(i).unwrap()),
    file_system: &deno_graph::source::NullFileSystem,
    jsr_url_provider: Default::default(),
    maybe_resolver: None,
    module_analyzer: Default::default(),
  }))
  .ok()
}

/// Closure of the roots under the edges the statement says to follow (set of keys that must be
/// present as slot or redirect source).  Whether a specifier is a module (and therefore has
/// dependencies to follow) is read off the graph itself; everything else comes from the world.
pub fn closure(w: &World, g: &ModuleGraph, roots: &[ModuleSpecifier]) -> BTreeSet<String> {
  closure_with(w, g, roots, false)
}

/// `through_overwritten`: also expand entries that hold a classification error although the loader
/// serves a module for them (a module entry overwritten by the error of a later, different request)
pub fn closure_with(w: &World, g: &ModuleGraph, roots: &[ModuleSpecifier], through_overwritten: bool) -> BTreeSet<String> {
  let kind = w.kind;
  let mut out = BTreeSet::new();
  // (specifier, requested as an asset: only cached, never analysed)
  let mut seen: BTreeSet<(String, bool)> = BTreeSet::new();
  let mut q: VecDeque<(ModuleSpecifier, bool)> = VecDeque::new();
  let push = |s: &ModuleSpecifier, asset: bool, seen: &mut BTreeSet<(String, bool)>, q: &mut VecDeque<(ModuleSpecifier, bool)>| {
    if seen.insert((s.to_string(), asset)) {
      q.push_back((s.clone(), asset));
    }
  };
  for r in roots {
    push(r, false, &mut seen, &mut q);
  }
  for gi in g.imports.values() {
    for d in gi.dependencies.values() {
      if let Some(t) = ok_spec(&d.maybe_type) {
        push(t, false, &mut seen, &mut q);
      }
    }
  }
  let slots: HashMap<ModuleSpecifier, Option<Result<&Module, &deno_graph::ModuleError>>> =
    g.verif_slots().into_iter().map(|(k, s, _)| (k.clone(), s)).collect();
  while let Some((s, asset)) = q.pop_front() {
    out.insert(s.to_string());
    if s.scheme() == "node" || s.scheme() == "data" {
      continue;
    }
    // an error entry stops the expansion (too many redirects, missing, ...)
    let mut overwritten = false;
    if let Some(Some(Err(e))) = slots.get(&s) {
      let k = err_kind(e).0;
      overwritten = through_overwritten
        && matches!(k.as_str(), "sourcePhase" | "unsupportedAttr" | "unsupportedMedia" | "invalidTypeAssertion");
      if !overwritten {
        // an error recorded on a redirect *source* (too many redirects on a cycle member that
        // another request walked through): the recorded hop was followed
        if let Some(t) = g.redirects.get(&s) {
          push(t, asset, &mut seen, &mut q);
        }
        continue;
      }
    }
    let Some(i) = w.spec_index(&s) else { continue };
    match &w.resp[i] {
      Resp::Redirect(t) => push(&w.specs[*t], asset, &mut seen, &mut q),
      Resp::Missing | Resp::Error => {}
      // an asset request only makes sure the bytes are cached: the entry stays at the requested
      // specifier and nothing is analysed
      Resp::External(_) | Resp::Module { .. } if asset => {}
      Resp::External(t) => push(&w.specs[*t], false, &mut seen, &mut q),
      Resp::Module { final_spec, .. } => {
        let f = &w.specs[*final_spec];
        push(f, false, &mut seen, &mut q);
        // only a specifier that the graph holds as an analysed module has edges to follow
        let is_module = overwritten
          || matches!(slots.get(f), Some(Some(Ok(Module::Js(_)))) | Some(Some(Ok(Module::Wasm(_)))));
        if !is_module {
          continue;
        }
        let Some(m) = declared(w, i) else { continue };
        let (deps, td, sm) = match &m {
          Module::Js(js) => (
            &js.dependencies,
            js.maybe_types_dependency.as_ref().map(|t| &t.dependency),
            js.maybe_source_map_dependency.as_ref().map(|t| &t.dependency),
          ),
          Module::Wasm(wm) => (&wm.dependencies, None, None),
          _ => continue,
        };
        let follow_deps = kind != GraphKind::TypesOnly || td.is_none();
        if follow_deps {
          if let Some(Resolution::Ok(ok)) = sm {
            push(&ok.specifier, true, &mut seen, &mut q);
          }
          for d in deps.values() {
            if d.is_dynamic && w.opts.skip_dynamic_deps {
              continue;
            }
            let dep_asset = d.imports.iter().all(|i| i.attributes.has_asset() || i.kind.is_source_phase());
            if kind.include_code() || d.maybe_type.is_none() {
              if let Some(t) = ok_spec(&d.maybe_code) {
                push(t, dep_asset, &mut seen, &mut q);
              }
            }
            if kind.include_types() {
              if let Some(t) = ok_spec(&d.maybe_type) {
                push(t, dep_asset, &mut seen, &mut q);
              }
            }
          }
        }
        if kind.include_types() {
          if let Some(Resolution::Ok(ok)) = td {
            push(&ok.specifier, false, &mut seen, &mut q);
          }
        }
      }
    }
  }
  out
}

/// the proviso of C01/C17/C19: all imports of one target use the same `type` attribute
/// (roots and configured imports count as attribute-less imports)
pub fn same_attribute_proviso(w: &World) -> bool {
  let mut seen: HashMap<String, Option<String>> = HashMap::new();
  let mut ok = true;
  let mut note = |target: &ModuleSpecifier, attr: Option<String>, ok: &mut bool| {
    match seen.get(target.as_str()) {
      Some(a) => {
        if *a != attr {
          *ok = false;
        }
      }
      None => {
        seen.insert(target.to_string(), attr);
      }
    }
  };
  for r in &w.roots {
    note(&w.specs[*r], None, &mut ok);
  }
  for (referrer, imports) in &w.imports {
    let gi = deno_graph::GraphImport::new(referrer, imports.clone(), Default::default(), None);
    for d in gi.dependencies.values() {
      if let Some(t) = ok_spec(&d.maybe_type) {
        note(t, None, &mut ok);
      }
    }
  }
  for i in 0..w.specs.len() {
    let Some(m) = declared(w, i) else { continue };
    if let Module::Js(js) = &m {
      for t in [js.maybe_types_dependency.as_ref(), js.maybe_source_map_dependency.as_ref()].into_iter().flatten() {
        if let Some(s) = ok_spec(&t.dependency) {
          note(s, None, &mut ok);
        }
      }
    }
    for d in m.dependencies().values() {
      // per import, not per dependency: the recorded attribute is only the first one
      let attrs: Vec<Option<String>> = if d.imports.is_empty() {
        vec![d.maybe_attribute_type.clone()]
      } else {
        d.imports.iter().map(|im| im.attributes.get("type").map(|s| s.to_string())).collect()
      };
      for a in attrs {
        for t in [ok_spec(&d.maybe_code), ok_spec(&d.maybe_type)].into_iter().flatten() {
          note(t, a.clone(), &mut ok);
        }
      }
    }
  }
  ok
}

pub fn world_cfg(wi: usize) -> GenCfg {
  let mut cfg = GenCfg::default();
  if wi % 4 == 1 {
    cfg.chain = Some(1 + wi % 12);
  }
  if wi % 9 == 2 {
    cfg.cycle = Some(2 + wi % 3);
  }
  if wi % 6 == 3 {
    cfg.p_missing = 15;
    cfg.p_error = 8;
    cfg.p_broken = 12;
  }
  if wi % 7 == 5 {
    cfg.remote = false;
  }
  if wi % 10 == 9 {
    // inconsistent loaders: model correspondence only (the closure is ambiguous there)
    cfg.allow_inconsistent_finals = true;
  }
  cfg
}

/// several modules import one target dynamically, some plainly and some as an asset (`type: "text"`
/// / `"bytes"`) or in source phase: whether the target's contents are needed is decided over all of them
fn dynamic_mix(rng: &mut Rng, w: &mut World) {
  let modules: Vec<usize> = (0..w.resp.len()).filter(|i| matches!(&w.resp[*i], Resp::Module { broken: Broken::No, .. })).collect();
  if modules.len() < 3 {
    return;
  }
  let target = modules[rng.below(modules.len())];
  let text = w.specs[target].to_string();
  w.opts.unstable_text = true;
  w.opts.unstable_bytes = true;
  let mut order: Vec<usize> = modules
    .iter()
    .copied()
    .filter(|m| *m != target && matches!(ext_of(&w.specs[*m]).as_str(), "ts" | "js" | "tsx" | "jsx" | "mts" | "mjs"))
    .collect();
  rng.shuffle(&mut order);
  for (k, m) in order.into_iter().take(3).enumerate() {
    let form = match (k + rng.below(3)) % 3 {
      0 => Form::Dynamic,
      1 => Form::DynamicWith(["text", "bytes"][rng.below(2)].to_string()),
      _ => Form::Dynamic,
    };
    // entries served under the final specifier `m` carry a copy of its source: keep them alike
    for r in w.resp.iter_mut() {
      if let Resp::Module { final_spec, items, .. } = r {
        if *final_spec == m {
          items.push(Item { form: form.clone(), text: text.clone() });
        }
      }
    }
    // make sure the importer is reached
    if !w.roots.contains(&m) && w.roots.len() < 4 {
      w.roots.push(m);
    }
  }
}

/// a resolver that accepts every package requirement except the listed names
#[derive(Debug)]
pub struct TableNpmResolver {
  pub failing: Vec<String>,
}

#[async_trait::async_trait(?Send)]
impl deno_graph::source::NpmResolver for TableNpmResolver {
  fn load_and_cache_npm_package_info(&self, _package_name: &str) {}
  async fn resolve_pkg_reqs(&self, package_reqs: &[deno_semver::package::PackageReq]) -> deno_graph::source::NpmResolvePkgReqsResult {
    deno_graph::source::NpmResolvePkgReqsResult {
      results: package_reqs
        .iter()
        .map(|r| if self.failing.iter().any(|f| *f == r.name.as_str()) { Err(deno_graph::NpmLoadError::PackageReqResolution(std::sync::Arc::new(deno_error::JsErrorBox::generic("no such package")))) } else { Ok(()) })
        .collect(),
      dep_graph_result: Ok(()),
    }
  }
}

/// with an npm resolver: every `npm:` specifier a followed dependency resolves to has an entry of
/// its own (entries are keyed by the whole specifier, sub-path included), a package module or an error
pub fn npm_resolver_part(report: &mut Report, rng: &mut Rng, n: usize) {
  use deno_graph::source::MemoryLoader;
  const POOL: &[&str] = &[
    "npm:chalk@5",
    "npm:chalk@5/sub",
    "npm:chalk@5/other/deep.js",
    "npm:chalk@^5.1",
    "npm:@types/node@^20",
    "npm:@types/node@^20/fs",
    "npm:left-pad",
    "npm:left-pad/index.js",
    "npm:gone@1",
    "npm:gone@1/x",
  ];
  for i in 0..n {
    let nm = 1 + rng.below(3);
    let mut loader = MemoryLoader::default();
    let mut texts = vec![];
    for k in 0..nm {
      let mut t = String::new();
      for j in 0..1 + rng.below(4) {
        let s = POOL[rng.below(POOL.len())];
        match rng.below(4) {
          0 => t.push_str(&format!("const d{} = await import(\"{}\");\n", j, s)),
          1 => t.push_str(&format!("import type {{ T{} }} from \"{}\";\n", j, s)),
          _ => t.push_str(&format!("import * as n{} from \"{}\";\n", j, s)),
        }
      }
      if k + 1 < nm {
        t.push_str(&format!("import \"./m{}.ts\";\n", k + 1));
      }
      loader.add_source_with_text(format!("file:///m{}.ts", k), &t);
      texts.push(t);
    }
    let kind = [GraphKind::All, GraphKind::CodeOnly, GraphKind::TypesOnly][i % 3];
    let skip_dynamic = i % 5 == 4;
    let resolver = TableNpmResolver { failing: if i % 2 == 0 { vec!["gone".into()] } else { vec![] } };
    let mut g = ModuleGraph::new(kind);
    crate::build::block_on(g.build(
      vec![ModuleSpecifier::parse("file:///m0.ts").unwrap()],
      vec![],
      &loader,
      deno_graph::BuildOptions { npm_resolver: Some(&resolver), skip_dynamic_deps: skip_dynamic, ..Default::default() },
    ));
    report.evaluations += 1;
    let desc = json!({"modules": texts, "graph_kind": format!("{:?}", kind), "skip_dynamic_deps": skip_dynamic, "failing_npm_packages": resolver.failing});
    for m in g.modules() {
      for (text, d) in m.dependencies() {
        if d.is_dynamic && skip_dynamic {
          continue;
        }
        for (r, is_type) in [(&d.maybe_code, false), (&d.maybe_type, true)] {
          if (is_type && !kind.include_types()) || (!is_type && kind == GraphKind::TypesOnly && !matches!(d.maybe_type, deno_graph::Resolution::None)) {
            continue;
          }
          let Some(t) = ok_spec(r) else { continue };
          if t.scheme() != "npm" {
            continue;
          }
          report.count("npm-specifiers-followed-with-a-resolver");
          // a requirement the resolver rejects is an error entry, however it is imported
          let rejected = resolver.failing.iter().any(|f| t.as_str().starts_with(&format!("npm:{}@", f)) || t.as_str().starts_with(&format!("npm:/{}@", f)) || t.as_str() == format!("npm:{}", f));
          if rejected && !matches!(g.try_get(t), Err(_)) {
            report.fail("oracle", "fault-without-error-entry", format!("{} imports {:?} ({}): the npm resolver rejects the package but the entry of {} is not an error", m.specifier(), text, if d.is_dynamic { "dynamic" } else { "static" }, t), desc.clone());
          }
          match g.try_get(t) {
            Ok(Some(Module::Npm(_))) | Err(_) => {}
            Ok(Some(other)) => report.fail("oracle", "npm-specifier-entry-of-wrong-kind", format!("{} imports {:?}: the entry of {} is {:?}", m.specifier(), text, t, other.specifier()), desc.clone()),
            Ok(None) => report.fail("oracle", "reachable-entry-absent", format!("{} imports {:?} ({}) and an npm resolver is present, but the graph has no entry for {}", m.specifier(), text, if d.is_dynamic { "dynamic" } else { "static" }, t), desc.clone()),
          }
        }
      }
    }
    report.nontrivial.insert(format!("npm-resolver/{:?}/m{}/skipdyn{}", kind, nm, skip_dynamic as u8));
  }
}

pub fn run(tier: &str, seed: u64) -> Report {
  let mut report = Report::new("C01");
  report.rule = "generated worlds (2-9 specifiers + forced redirect chains/cycles; file/https/http origins; every \
    dependency-bearing form; redirecting, external, missing, erroring, undecodable and unparsable entries; all graph kinds; \
    build options) built through the real loader path and by the Lean builder model from the abstracted world (per-module \
    analysis by the public parse_module): compared slots (kind, media type, dependencies with resolutions and dynamic flag, \
    error kind + referrer), redirects and the exact sequence of loader calls; oracle: closure of the roots over the world \
    vs the graph's keys, recorded dependencies vs the source's declared ones, no specifier loaded twice; \
    non-trivial = distinct (kind, #slots, #redirects, #errors, options) classes"
    .into();
  quiet_panics();
  let mut rng = Rng::new(seed ^ 0xC01);
  let n = if tier == "thorough" { 12000 } else { 1500 };
  let mut batch = Batch::new();
  for wi in 0..n {
    let cfg = world_cfg(wi);
    let mut wr = rng.fork();
    let mut w = gen_world(&mut wr, &cfg);
    if wi % 11 == 4 && !cfg.allow_inconsistent_finals {
      dynamic_mix(&mut wr, &mut w);
    }
    let w = w;
    let mut ctx = Ctx::default();
    let req = build_request(&mut ctx, &w, &w.roots, MODEL_FUEL);
    let loader = ScriptedLoader::new(&w);
    let desc = json!({"world": w.describe(), "world_index": wi});
    batch.descs.push(desc.clone());
    report.evaluations += 1;
    match try_build_world(&w, &loader) {
      Err(BuildFailure::NonTermination) => {
        batch.push(req, "OUT-OF-FUEL".into(), false);
        report.fail("oracle", "build-does-not-terminate", "loader call budget exhausted".into(), desc);
      }
      Err(BuildFailure::Panic(m)) => {
        batch.push(req, "PANIC".into(), false);
        report.fail("oracle", "build-panicked", m, desc);
      }
      Ok(g) => {
        let log = loader.log.borrow().clone();
        let shown = show_graph(&mut ctx, &g, &log);
        batch.push(req, shown, false);
        if wi < 2 {
          report.sample(json!({"world": w.describe(), "graph": serde_json::to_value(&g).unwrap()}));
        }
        if cfg.allow_inconsistent_finals {
          report.count("inconsistent-loader-world (correspondence only)");
          continue;
        }
        if !same_attribute_proviso(&w) {
          report.count("mixed-type-attributes-on-one-target (outside the proviso, correspondence only)");
          continue;
        }
        // ---- oracle 1: exactly the closure -------------------------------------
        let roots: Vec<ModuleSpecifier> = w.roots.iter().map(|r| w.specs[*r].clone()).collect();
        let expect = closure(&w, &g, &roots);
        let mut have: BTreeSet<String> = g.verif_slots().into_iter().map(|(k, _, _)| k.to_string()).collect();
        have.extend(g.redirects.keys().map(|k| k.to_string()));
        let extra: Vec<&String> = have.difference(&expect).collect();
        let missing: Vec<&String> = expect.difference(&have).collect();
        if !extra.is_empty() && {
          let lenient = closure_with(&w, &g, &roots, true);
          have.is_subset(&lenient)
        } {
          report.fail(
            "oracle",
            "module-entry-overwritten-by-later-error",
            format!("entries {:?} hang off an entry whose module was replaced by the classification error of a later request", extra),
            desc.clone(),
          );
        } else if !extra.is_empty() {
          report.fail("oracle", "unreachable-entry-present", format!("entries not reachable from the roots: {:?}; closure = {:?}", extra, expect), desc.clone());
        }
        if !missing.is_empty() {
          report.fail("oracle", "reachable-entry-absent", format!("reachable specifiers without an entry: {:?}", missing), desc.clone());
        }
        // ---- oracle 2: no pending entry, serialisation has no internal error -----
        if g.verif_slots().iter().any(|(_, s, _)| s.is_none()) {
          report.fail("oracle", "pending-entry-left", "a pending slot survived the build".into(), desc.clone());
        }
        // ---- oracle 3: every loader redirect recorded ------------------------------
        for c in &log {
          let s = ModuleSpecifier::parse(&c.specifier).unwrap();
          if let Some(i) = w.spec_index(&s) {
            let target = match &w.resp[i] {
              Resp::Redirect(t) => Some(&w.specs[*t]),
              Resp::Module { final_spec, .. } if *final_spec != i && !c.ensure_cached => Some(&w.specs[*final_spec]),
              Resp::External(t) if *t != i && !c.ensure_cached => Some(&w.specs[*t]),
              _ => None,
            };
            if let Some(t) = target {
              // recorded unless the request ended in an error stored at the requested specifier
              let errored = matches!(g.try_get(&s), Err(_)) && !g.redirects.contains_key(&s);
              if !errored && t != &s && g.redirects.get(&s).is_none() {
                report.fail("oracle", "redirect-not-recorded", format!("{} was redirected to {} but graph.redirects has no entry", s, t), desc.clone());
              }
            }
          }
        }
        // ---- oracle 4: one load per (specifier, asset?) ------------------------------
        let mut seen_calls = BTreeSet::new();
        let chain_terminates = |start: &str| -> bool {
          let Ok(mut cur) = ModuleSpecifier::parse(start) else { return true };
          for _ in 0..64 {
            match w.spec_index(&cur).map(|i| &w.resp[i]) {
              Some(Resp::Redirect(t)) => cur = w.specs[*t].clone(),
              _ => return true,
            }
          }
          false
        };
        for c in &log {
          // members of (or paths into) a redirect cycle are requested again and again until the
          // redirect limit trips: only terminating chains are held to "one load"
          if !seen_calls.insert((c.specifier.clone(), c.ensure_cached)) && chain_terminates(&c.specifier) {
            // the statement asks for a single *entry* per specifier (which the slot map gives by
            // construction), not for a single load: recorded, not a failure
            report.count("info:specifier-requested-twice-by-concurrent-redirect-walkers");
          }
        }
        // ---- oracle 5: recorded dependencies match the source ---------------------------
        for (i, s) in w.specs.iter().enumerate() {
          let Resp::Module { final_spec, .. } = &w.resp[i] else { continue };
          if *final_spec != i {
            continue;
          }
          let Some(Module::Js(gm)) = g.get(s) else { continue };
          if gm.specifier != *s {
            continue;
          }
          let Some(Module::Js(dm)) = declared(&w, i) else { continue };
          // a types-only graph keeps no dependencies behind a module that has a types dependency
          let cleared = w.kind == GraphKind::TypesOnly && dm.maybe_types_dependency.is_some();
          let mut exp = vec![];
          if !cleared {
            for (t, d) in &dm.dependencies {
              let (mut code, mut ty) = (show_res(&mut ctx, &d.maybe_code), show_res(&mut ctx, &d.maybe_type));
              if !(d.is_dynamic && w.opts.skip_dynamic_deps) {
                if !(w.kind.include_code() || d.maybe_type.is_none()) {
                  code = "n".into();
                }
                if !w.kind.include_types() {
                  ty = "n".into();
                }
              }
              exp.push(format!("{},{},{},{}", ctx.texts.id(t), code, ty, d.is_dynamic as u8));
            }
          }
          let got = show_deps(&mut ctx, &gm.dependencies);
          if got != exp.join(";") {
            report.fail("oracle", "dependencies-differ-from-source", format!("{}: graph has [{}], source declares [{}]", s, got, exp.join(";")), desc.clone());
          }
        }
        // ---- oracle 6: static wins / first type attribute, recomputed from the import list ----
        for m in g.modules() {
          let declaration = matches!(m.media_type(), deno_graph::MediaType::Dts | deno_graph::MediaType::Dmts | deno_graph::MediaType::Dcts);
          for (t, d) in m.dependencies() {
            use deno_graph::ImportKind::*;
            let code_imports: Vec<&deno_graph::Import> = d
              .imports
              .iter()
              .filter(|i| matches!(i.kind, Es | EsSource | Require | JsxImportSource) && (!declaration || matches!(i.kind, JsxImportSource)))
              .collect();
            let expect_dynamic = !code_imports.is_empty() && code_imports.iter().all(|i| i.is_dynamic);
            if d.is_dynamic != expect_dynamic {
              report.fail(
                "oracle",
                "static-does-not-win",
                format!("{} dependency {:?}: is_dynamic = {} but its code imports are {:?}", m.specifier(), t, d.is_dynamic, code_imports.iter().map(|i| (format!("{:?}", i.kind), i.is_dynamic)).collect::<Vec<_>>()),
                desc.clone(),
              );
            }
            let first_attr = d.imports.iter().find_map(|i| i.attributes.get("type").map(|s| s.to_string()));
            if d.maybe_attribute_type != first_attr {
              report.fail("oracle", "attribute-type-not-from-source", format!("{} dependency {:?}: recorded attribute {:?}, imports say {:?}", m.specifier(), t, d.maybe_attribute_type, first_attr), desc.clone());
            }
          }
        }
        // ---- oracle 6b: a module whose contents some followed import needs is not an asset stand-in --
        {
          let follow = |s: &ModuleSpecifier| -> ModuleSpecifier {
            let mut cur = s.clone();
            for _ in 0..32 {
              match g.redirects.get(&cur) {
                Some(n) => cur = n.clone(),
                None => break,
              }
            }
            cur
          };
          for m in g.modules() {
            let declaration = matches!(m.media_type(), deno_graph::MediaType::Dts | deno_graph::MediaType::Dmts | deno_graph::MediaType::Dcts);
            for (t, d) in m.dependencies() {
              if (d.is_dynamic && w.opts.skip_dynamic_deps) || declaration || !g.graph_kind().include_code() {
                continue;
              }
              let needs_contents = d.imports.iter().any(|i| {
                matches!(i.kind, deno_graph::ImportKind::Es | deno_graph::ImportKind::Require | deno_graph::ImportKind::JsxImportSource) && !i.attributes.has_asset()
              });
              if !needs_contents {
                continue;
              }
              let Some(target) = ok_spec(&d.maybe_code) else { continue };
              let target = follow(target);
              let Some(i) = w.spec_index(&target) else { continue };
              let serves_module = matches!(&w.resp[i], Resp::Module { final_spec, broken: Broken::No, .. } if *final_spec == i);
              if serves_module {
                if let Some(Module::External(_)) = g.get(&target) {
                  report.fail(
                    "oracle",
                    "module-needed-for-its-contents-is-an-asset-stand-in",
                    format!("{} imports {:?} for its contents, the loader serves a module, but the entry of {} is an external stand-in", m.specifier(), t, target),
                    desc.clone(),
                  );
                }
              }
            }
          }
        }
        // ---- oracle 7: a JSON file every importer of which asserts `type: "json"` is a JSON module --
        {
          let follow = |s: &ModuleSpecifier| -> ModuleSpecifier {
            let mut cur = s.clone();
            for _ in 0..32 {
              match g.redirects.get(&cur) {
                Some(n) => cur = n.clone(),
                None => break,
              }
            }
            cur
          };
          let mut importer_attrs: HashMap<ModuleSpecifier, Vec<Option<String>>> = HashMap::new();
          for r in &roots {
            importer_attrs.entry(follow(r)).or_default().push(Some("root".into()));
          }
          for m in g.modules() {
            for d in m.dependencies().values() {
              for r in [&d.maybe_code, &d.maybe_type] {
                if let Some(t) = ok_spec(r) {
                  importer_attrs.entry(follow(t)).or_default().push(d.maybe_attribute_type.clone());
                }
              }
            }
          }
          // configured imports request their targets without an attribute
          for gi in g.imports.values() {
            for d in gi.dependencies.values() {
              for r in [&d.maybe_code, &d.maybe_type] {
                if let Some(t) = ok_spec(r) {
                  importer_attrs.entry(follow(t)).or_default().push(None);
                }
              }
            }
          }
          for e in g.module_errors() {
            if err_kind(e).0 != "unsupportedMedia" {
              continue;
            }
            let s = e.specifier();
            let Some(i) = w.spec_index(s) else { continue };
            let is_json = matches!(&w.resp[i], Resp::Module { final_spec, headers: None, .. } if *final_spec == i) && ext_of(s) == "json";
            if !is_json {
              continue;
            }
            if let Some(attrs) = importer_attrs.get(s) {
              if !attrs.is_empty() && attrs.iter().all(|a| a.as_deref() == Some("json")) {
                report.fail("oracle", "asserted-json-module-became-error", format!("{} is only imported with type: \"json\" but is an unsupported-media-type error", s), desc.clone());
              }
            }
          }
        }
        let nslots = g.verif_slots().len();
        let nerr = g.module_errors().count();
        report.nontrivial.insert(format!("{:?}/s{}/r{}/e{}/{}{}", w.kind, nslots.min(12), g.redirects.len().min(6), nerr.min(4), w.opts.is_dynamic as u8, w.opts.skip_dynamic_deps as u8));
        report.count(&format!("graph-kind:{:?}", w.kind));
        report.count(&format!("slots:{}", nslots.min(14)));
        for e in g.module_errors() {
          report.count(&format!("error-kind:{}", err_kind(e).0));
        }
        report.count_n("loader-calls", log.len() as u64);
      }
    }
  }
  npm_resolver_part(&mut report, &mut rng, if tier == "thorough" { 6000 } else { 600 });
  batch.finish(&mut report, "C01");
  report
}
