//! Result of one property run, written as JSON for the `check` driver.
use serde_json::Value;
use serde_json::json;
use std::collections::BTreeMap;
use std::collections::BTreeSet;

#[derive(Debug, Clone)]
pub struct Failure {
  /// "correspondence" (model vs implementation) or "oracle" (statement vs implementation)
  pub kind: &'static str,
  /// classification used to match known findings
  pub shape: String,
  pub what: String,
  pub replay: Value,
}

#[derive(Debug, Default)]
pub struct Report {
  pub property: String,
  pub evaluations: u64,
  pub nontrivial: BTreeSet<String>,
  pub rule: String,
  pub samples: Vec<Value>,
  pub failures: Vec<Failure>,
  pub distribution: BTreeMap<String, u64>,
  pub exhaustive: Vec<String>,
  pub model_requests: u64,
  pub notes: Vec<String>,
}

impl Report {
  pub fn new(property: &str) -> Self {
    Report { property: property.to_string(), ..Default::default() }
  }
  pub fn count(&mut self, key: &str) {
    *self.distribution.entry(key.to_string()).or_insert(0) += 1;
  }
  pub fn count_n(&mut self, key: &str, n: u64) {
    *self.distribution.entry(key.to_string()).or_insert(0) += n;
  }
  pub fn fail(&mut self, kind: &'static str, shape: &str, what: String, replay: Value) {
    // keep at most 40 failures per shape to bound output
    let n = self.failures.iter().filter(|f| f.shape == shape && f.kind == kind).count();
    self.count(&format!("failure:{}:{}", kind, shape));
    if n < 40 {
      self.failures.push(Failure { kind, shape: shape.to_string(), what, replay });
    }
  }
  pub fn sample(&mut self, v: Value) {
    if self.samples.len() < 5 {
      self.samples.push(v);
    }
  }
  pub fn to_json(&self) -> Value {
    json!({
      "property": self.property,
      "evaluations": self.evaluations,
      "distinct_nontrivial": self.nontrivial.len(),
      "rule": self.rule,
      "samples": self.samples,
      "failures": self.failures.iter().map(|f| json!({
        "kind": f.kind, "shape": f.shape, "what": f.what, "replay": f.replay,
      })).collect::<Vec<_>>(),
      "distribution": self.distribution,
      "exhaustive": self.exhaustive,
      "model_requests": self.model_requests,
      "notes": self.notes,
    })
  }
}

/// Compare model answers with implementation answers line by line.
/// `as_set[i]` compares whitespace-separated tokens as a sorted multiset.
pub fn compare(
  report: &mut Report,
  reqs: &[String],
  model: &[String],
  imp: &[String],
  as_set: &[bool],
  context: &dyn Fn(usize) -> Value,
) {
  for i in 0..reqs.len() {
    let same = if as_set[i] {
      crate::battery::sorted_tokens(&model[i]) == crate::battery::sorted_tokens(&imp[i])
    } else {
      model[i].trim() == imp[i].trim()
    };
    if !same {
      report.fail(
        "correspondence",
        "model-vs-impl",
        format!("request {} : model `{}` impl `{}`", reqs[i], model[i], imp[i]),
        json!({"request": reqs[i], "model": model[i], "impl": imp[i], "context": context(i)}),
      );
    }
  }
}
