//! Registry (JSR) worlds: packages x versions x exports x files, rendered to the URLs the
//! registry serves (`meta.json`, `<version>_meta.json`, package files), a loader honouring the
//! three cache settings and verifying checksums, and the user program importing `jsr:` specifiers.
use crate::rng::Rng;
use crate::world::Form;
use crate::world::Item;
use crate::world::InlineExecutor;
use crate::world::LoadCall;
use crate::world::NONTERMINATION_MARKER;
use crate::world::other_load_error;
use crate::world::sha256_hex;
use deno_graph::BuildOptions;
use deno_graph::GraphKind;
use deno_graph::ModuleGraph;
use deno_graph::ModuleSpecifier;
use deno_graph::packages::JsrVersionResolver;
use deno_graph::packages::NewestDependencyDate;
use deno_graph::packages::NewestDependencyDateOptions;
use deno_graph::source::CacheSetting;
use deno_graph::source::LoadError;
use deno_graph::source::LoadFuture;
use deno_graph::source::LoadOptions;
use deno_graph::source::LoadResponse;
use deno_graph::source::Loader;
use deno_graph::source::LoaderChecksum;
use deno_graph::source::Locker;
use deno_graph::source::Reporter;
use deno_semver::package::PackageNv;
use deno_semver::package::PackageReq;
use serde_json::json;
use std::cell::RefCell;
use std::collections::BTreeMap;
use std::collections::BTreeSet;
use std::sync::Arc;
use std::sync::Mutex;

pub const REG: &str = "https://jsr.io/";
pub const VERSIONS: &[&str] = &["0.9.0", "1.0.0-beta.1", "1.0.0", "1.1.0", "1.2.0", "2.0.0"];
pub const REQS: &[&str] = &["", "@1", "@^1.0.0", "@~1.0", "@1.1.0", "@>=1.1.0", "@^2", "@0.9", "@^1.0.0-beta", "@3", "@<2"];

#[derive(Clone, Debug, PartialEq, Eq)]
pub enum ExportsDesc {
  Str(String),
  /// value None = a non-string JSON value
  Obj(Vec<(String, Option<String>)>),
  Other,
}

impl ExportsDesc {
  pub fn to_json(&self) -> serde_json::Value {
    match self {
      ExportsDesc::Str(s) => json!(s),
      ExportsDesc::Obj(m) => {
        let mut o = serde_json::Map::new();
        for (k, v) in m {
          o.insert(k.clone(), v.as_ref().map(|v| json!(v)).unwrap_or(json!(17)));
        }
        serde_json::Value::Object(o)
      }
      ExportsDesc::Other => json!(null),
    }
  }
  pub fn lookup(&self, name: &str) -> Option<&str> {
    match self {
      ExportsDesc::Str(s) => (name == ".").then_some(s.as_str()),
      ExportsDesc::Obj(m) => m.iter().find(|(k, _)| k == name).and_then(|(_, v)| v.as_deref()),
      ExportsDesc::Other => None,
    }
  }
  pub fn names(&self) -> Vec<String> {
    match self {
      ExportsDesc::Str(_) => vec![".".into()],
      ExportsDesc::Obj(m) => m.iter().filter(|(_, v)| v.is_some()).map(|(k, _)| k.clone()).collect(),
      ExportsDesc::Other => vec![],
    }
  }
}

#[derive(Clone, Copy, Debug, PartialEq, Eq)]
pub enum Fault {
  None,
  Missing,
  Error,
  Malformed,
  Redirect,
  External,
}

#[derive(Clone, Copy, Debug, PartialEq, Eq)]
pub enum MgKind {
  None,
  V2,
  V1,
  /// both forms in one manifest: the newer one is the one to use (the older cannot express `@ts-types`)
  Both,
}

#[derive(Clone, Copy, Debug, PartialEq, Eq)]
pub enum ManifestEntry {
  Ok,
  Absent,
  Bad,
  NoPrefix,
}

#[derive(Clone, Debug)]
pub struct RegFile {
  /// sub-path with leading slash: `/mod.ts`
  pub path: String,
  pub items: Vec<Item>,
  pub raw: Option<Vec<u8>>,
  pub manifest: ManifestEntry,
  pub fault: Fault,
  /// bytes in the cache differ from what the registry serves (only seen with `Use`/`Only`)
  pub tampered_cache: bool,
}

#[derive(Clone, Debug)]
pub struct RegVer {
  pub version: String,
  pub yanked: bool,
  pub created_day: Option<i64>,
  pub exports: ExportsDesc,
  pub files: Vec<RegFile>,
  pub mg: MgKind,
  pub fault: Fault,
  pub lockfile_checksum: Option<String>,
}

#[derive(Clone, Debug)]
pub struct RegPkg {
  pub name: String,
  pub versions: Vec<RegVer>,
  pub fault: Fault,
  /// the cached `meta.json` lists only these versions (a `Reload` sees all of them)
  pub stale: Option<Vec<String>>,
}

#[derive(Clone, Debug)]
pub struct UserFile {
  pub url: String,
  pub items: Vec<Item>,
}

#[derive(Clone, Debug)]
pub struct RegWorld {
  pub pkgs: Vec<RegPkg>,
  pub user: Vec<UserFile>,
  pub roots: Vec<String>,
  pub kind: GraphKind,
  pub prefer_cached: bool,
  pub passthrough: bool,
  pub skip_dynamic_deps: bool,
  pub cutoff_day: Option<i64>,
  pub excl: Vec<String>,
  pub excl_prefixes: Vec<String>,
  /// URLs present in the cache (for `CacheSetting::Only`)
  pub cached: BTreeSet<String>,
  pub has_locker: bool,
  /// lockfile package-manifest checksums: (name@version, matches the served manifest?)
  pub lock_manifests: Vec<(String, bool)>,
  /// lockfile remote entries: (URL, matches the served bytes?) - also for https URLs into the registry
  pub lock_remote: Vec<(String, bool)>,
  /// `jsr` entries of a lockfile: (package name, requirement text without the name, version) the
  /// graph's package table is seeded with before the build
  pub seeds: Vec<(String, String, String)>,
}

pub fn day(t: i64) -> chrono::DateTime<chrono::Utc> {
  chrono::DateTime::from_timestamp(t * 86_400, 0).unwrap()
}

pub fn ext_of_path(p: &str) -> &str {
  if p.ends_with(".d.ts") {
    return "d.ts";
  }
  p.rsplit_once('.').map(|x| x.1).unwrap_or("")
}

impl RegVer {
  pub fn file_bytes(&self, f: &RegFile) -> Vec<u8> {
    if let Some(r) = &f.raw {
      return r.clone();
    }
    // the older manifest format can only describe the older pragma
    let items: Vec<Item> = if self.mg == MgKind::V1 {
      f.items.iter().map(|i| match &i.form {
        Form::TsTypes(t) => Item { form: Form::DenoTypes(t.clone()), text: i.text.clone() },
        _ => i.clone(),
      }).collect()
    } else {
      f.items.clone()
    };
    crate::world::render(ext_of_path(&f.path), &items, &crate::world::Broken::No)
  }
}

pub fn pkg_url(name: &str, version: &str) -> String {
  format!("{}{}/{}/", REG, name, version)
}
pub fn file_url(name: &str, version: &str, path: &str) -> String {
  format!("{}{}/{}{}", REG, name, version, path)
}
pub fn meta_url(name: &str) -> String {
  format!("{}{}/meta.json", REG, name)
}
pub fn ver_meta_url(name: &str, version: &str) -> String {
  format!("{}{}/{}_meta.json", REG, name, version)
}

/// module information as this analyser produces it from the file's source
pub fn analyze(url: &str, bytes: &[u8]) -> Option<serde_json::Value> {
  let spec = ModuleSpecifier::parse(url).ok()?;
  let mt = deno_graph::MediaType::from_specifier(&spec);
  use deno_graph::MediaType::*;
  if mt == Wasm {
    // a WebAssembly module is described by the declarations derived from it
    let dts = deno_graph::source::wasm::wasm_module_to_dts(bytes).ok()?;
    let info = deno_graph::ast::ParserModuleAnalyzer::default().analyze_sync(&spec, Arc::from(dts), Dmts).ok()?;
    return serde_json::to_value(&info).ok();
  }
  if !matches!(mt, JavaScript | Mjs | Cjs | Jsx | TypeScript | Mts | Cts | Dts | Dmts | Dcts | Tsx) {
    return None;
  }
  let text: Arc<str> = Arc::from(String::from_utf8(bytes.to_vec()).ok()?);
  let info = deno_graph::ast::ParserModuleAnalyzer::default().analyze_sync(&spec, text, mt).ok()?;
  serde_json::to_value(&info).ok()
}

/// the older `moduleGraph1` rendering of one module's information: `typesSpecifier` is replaced
/// by the leading comment it came from (`// @deno-types="..."`, or without quotes, at column 0, as
/// `render` emits it)
pub fn to_module_graph_1(v2: &serde_json::Value) -> serde_json::Value {
  to_module_graph_1_with(v2, false)
}

pub fn to_module_graph_1_with(v2: &serde_json::Value, bare: bool) -> serde_json::Value {
  let mut v = v2.clone();
  if let Some(deps) = v.get_mut("dependencies").and_then(|d| d.as_array_mut()) {
    for d in deps {
      let Some(o) = d.as_object_mut() else { continue };
      if let Some(ts) = o.remove("typesSpecifier") {
        let text = ts["text"].as_str().unwrap().to_string();
        // range = [[line, char], [line, char]]
        let line = ts["range"][0][0].as_u64().unwrap();
        let comment_text = if bare { format!(" @deno-types={}", text) } else { format!(" @deno-types=\"{}\"", text) };
        let end = 2 + comment_text.len() as u64;
        // the pragma is the last of possibly several leading comments (a licence header, a note)
        let mut comments = vec![];
        if (line + text.len() as u64) % 3 != 0 {
          comments.push(json!({"text": " Copyright the authors. MIT licence.", "range": [[0, 0], [0, 38]]}));
        }
        if (line + text.len() as u64) % 5 == 1 {
          comments.push(json!({"text": " @deno-types=\"./other-types-that-do-not-apply.d.ts\"", "range": [[0, 0], [0, 50]]}));
        }
        comments.push(json!({"text": comment_text, "range": [[line, 0], [line, end]]}));
        o.insert("leadingComments".into(), serde_json::Value::Array(comments));
      }
    }
  }
  v
}

#[derive(Clone, Debug)]
pub enum Ans {
  Bytes(Vec<u8>),
  Missing,
  Error,
  Redirect(String),
  External,
}

#[derive(Clone, Debug)]
pub struct Served {
  pub fresh: Ans,
  /// what the cache holds (`Use` and `Only` see this when present)
  pub cached: Option<Ans>,
  /// the loader followed a redirect itself: the module is answered under this final specifier
  pub final_spec: Option<String>,
}

fn fault_ans(f: Fault, url: &str, bytes: Vec<u8>) -> Ans {
  match f {
    Fault::None => Ans::Bytes(bytes),
    Fault::Missing => Ans::Missing,
    Fault::Error => Ans::Error,
    Fault::Malformed => Ans::Bytes(b"{ not json".to_vec()),
    Fault::Redirect => Ans::Redirect(format!("{}.moved", url)),
    Fault::External => Ans::External,
  }
}

impl RegWorld {
  pub fn meta_json(&self, p: &RegPkg, only: Option<&[String]>) -> Vec<u8> {
    let mut versions = serde_json::Map::new();
    for v in &p.versions {
      if let Some(only) = only {
        if !only.contains(&v.version) {
          continue;
        }
      }
      let mut o = serde_json::Map::new();
      if v.yanked {
        o.insert("yanked".into(), json!(true));
      }
      if let Some(d) = v.created_day {
        o.insert("createdAt".into(), serde_json::to_value(day(d)).unwrap());
      }
      versions.insert(v.version.clone(), serde_json::Value::Object(o));
    }
    serde_json::to_vec(&json!({ "versions": versions })).unwrap()
  }

  pub fn ver_meta_json(&self, p: &RegPkg, v: &RegVer) -> Vec<u8> {
    let mut manifest = serde_json::Map::new();
    let mut mg = serde_json::Map::new();
    let mut mg_old = serde_json::Map::new();
    for f in &v.files {
      let bytes = v.file_bytes(f);
      match f.manifest {
        ManifestEntry::Ok => {
          manifest.insert(f.path.clone(), json!({"size": bytes.len(), "checksum": format!("sha256-{}", sha256_hex(&bytes))}));
        }
        ManifestEntry::Bad => {
          manifest.insert(f.path.clone(), json!({"size": bytes.len(), "checksum": format!("sha256-{}", sha256_hex(b"something else"))}));
        }
        ManifestEntry::NoPrefix => {
          manifest.insert(f.path.clone(), json!({"size": bytes.len(), "checksum": format!("md5-{}", sha256_hex(&bytes))}));
        }
        ManifestEntry::Absent => {}
      }
      if v.mg != MgKind::None {
        if let Some(info) = analyze(&file_url(&p.name, &v.version, &f.path), &bytes) {
          if v.mg == MgKind::Both {
            mg_old.insert(f.path.clone(), to_module_graph_1_with(&info, f.items.iter().any(|i| matches!(i.form, Form::DenoTypesBare(_)))));
          }
          mg.insert(f.path.clone(), if v.mg == MgKind::V1 { to_module_graph_1_with(&info, f.items.iter().any(|i| matches!(i.form, Form::DenoTypesBare(_)))) } else { info });
        }
      }
    }
    let mut o = serde_json::Map::new();
    o.insert("exports".into(), v.exports.to_json());
    o.insert("manifest".into(), serde_json::Value::Object(manifest));
    match v.mg {
      MgKind::None => {}
      MgKind::V2 => {
        o.insert("moduleGraph2".into(), serde_json::Value::Object(mg));
      }
      MgKind::V1 => {
        o.insert("moduleGraph1".into(), serde_json::Value::Object(mg));
      }
      MgKind::Both => {
        o.insert("moduleGraph1".into(), serde_json::Value::Object(mg_old));
        o.insert("moduleGraph2".into(), serde_json::Value::Object(mg));
      }
    }
    if let Some(c) = &v.lockfile_checksum {
      o.insert("lockfileChecksum".into(), json!(c));
    }
    serde_json::to_vec(&serde_json::Value::Object(o)).unwrap()
  }

  /// everything the loader can be asked for
  pub fn served(&self) -> BTreeMap<String, Served> {
    let mut m = BTreeMap::new();
    for p in &self.pkgs {
      let url = meta_url(&p.name);
      let fresh = fault_ans(p.fault, &url, self.meta_json(p, None));
      let cached = match (&p.stale, p.fault) {
        (Some(only), Fault::None) => Some(Ans::Bytes(self.meta_json(p, Some(only)))),
        _ => self.cached.contains(&url).then(|| fresh.clone()),
      };
      m.insert(url, Served { fresh, cached, final_spec: None });
      for v in &p.versions {
        let url = ver_meta_url(&p.name, &v.version);
        let fresh = fault_ans(v.fault, &url, self.ver_meta_json(p, v));
        let cached = self.cached.contains(&url).then(|| fresh.clone());
        m.insert(url, Served { fresh, cached, final_spec: None });
        for f in &v.files {
          let url = file_url(&p.name, &v.version, &f.path);
          let bytes = v.file_bytes(f);
          let fresh = fault_ans(f.fault, &url, bytes.clone());
          let cached = if f.tampered_cache {
            let mut b = bytes.clone();
            b.extend(b"\n// tampered\n");
            Some(Ans::Bytes(b))
          } else {
            self.cached.contains(&url).then(|| fresh.clone())
          };
          m.insert(url, Served { fresh, cached, final_spec: None });
        }
      }
    }
    for u in &self.user {
      let ext = ext_of_path(&u.url).to_string();
      let bytes = crate::world::render(&ext, &u.items, &crate::world::Broken::No);
      m.insert(u.url.clone(), Served { fresh: Ans::Bytes(bytes), cached: None, final_spec: None });
    }
    m
  }

  pub fn find(&self, name: &str, version: &str) -> Option<(&RegPkg, &RegVer)> {
    let p = self.pkgs.iter().find(|p| p.name == name)?;
    let v = p.versions.iter().find(|v| v.version == version)?;
    Some((p, v))
  }

  pub fn describe(&self) -> serde_json::Value {
    json!({
      "kind": format!("{:?}", self.kind),
      "prefer_cached": self.prefer_cached,
      "passthrough": self.passthrough,
      "skip_dynamic_deps": self.skip_dynamic_deps,
      "cutoff_day": self.cutoff_day,
      "excl": self.excl,
      "excl_prefixes": self.excl_prefixes,
      "cached": self.cached,
      "has_locker": self.has_locker,
      "lock_manifests": self.lock_manifests,
      "lock_remote": self.lock_remote,
      "lockfile_jsr_seeds": self.seeds,
      "roots": self.roots,
      "user": self.user.iter().map(|u| json!({"url": u.url, "items": u.items.iter().map(|i| format!("{:?} {}", i.form, i.text)).collect::<Vec<_>>()})).collect::<Vec<_>>(),
      "pkgs": self.pkgs.iter().map(|p| json!({
        "name": p.name, "fault": format!("{:?}", p.fault), "stale": p.stale,
        "versions": p.versions.iter().map(|v| json!({
          "version": v.version, "yanked": v.yanked, "created_day": v.created_day, "exports": v.exports.to_json(),
          "mg": format!("{:?}", v.mg), "fault": format!("{:?}", v.fault), "lockfileChecksum": v.lockfile_checksum,
          "files": v.files.iter().map(|f| json!({"path": f.path, "manifest": format!("{:?}", f.manifest), "fault": format!("{:?}", f.fault),
            "tampered_cache": f.tampered_cache, "raw": f.raw.is_some(),
            "items": f.items.iter().map(|i| format!("{:?} {}", i.form, i.text)).collect::<Vec<_>>()})).collect::<Vec<_>>(),
        })).collect::<Vec<_>>(),
      })).collect::<Vec<_>>(),
    })
  }
}

// ---------------------------------------------------------------------------------------------

pub struct RegLoader {
  pub served: BTreeMap<String, Served>,
  pub log: RefCell<Vec<LoadCall>>,
  pub budget: usize,
  /// number of loader calls so far, shared with the reporter to order its events against the log
  pub calls: Arc<std::sync::atomic::AtomicUsize>,
}

impl RegLoader {
  pub fn new(w: &RegWorld) -> Self {
    let served = w.served();
    let budget = 400 + 40 * served.len();
    RegLoader { served, log: RefCell::new(vec![]), budget, calls: Arc::new(std::sync::atomic::AtomicUsize::new(0)) }
  }

  pub fn answer(&self, url: &str, cache: CacheSetting) -> Ans {
    if url.starts_with("data:") {
      return Ans::Missing;
    }
    let Some(s) = self.served.get(url) else {
      return Ans::Missing;
    };
    match cache {
      CacheSetting::Only => s.cached.clone().unwrap_or(Ans::Missing),
      CacheSetting::Use => s.cached.clone().unwrap_or_else(|| s.fresh.clone()),
      CacheSetting::Reload => s.fresh.clone(),
    }
  }

  pub fn respond(&self, specifier: &ModuleSpecifier, cache: CacheSetting, checksum: Option<&str>) -> Result<Option<LoadResponse>, LoadError> {
    match self.answer(specifier.as_str(), cache) {
      Ans::Bytes(content) => {
        if let Some(c) = checksum {
          let actual = sha256_hex(&content);
          if actual != c {
            return Err(LoadError::ChecksumIntegrity(deno_graph::source::ChecksumIntegrityError { actual, expected: c.to_string() }));
          }
        }
        let final_spec = self
          .served
          .get(specifier.as_str())
          .and_then(|s| s.final_spec.as_ref())
          .map(|f| ModuleSpecifier::parse(f).unwrap())
          .unwrap_or_else(|| specifier.clone());
        Ok(Some(LoadResponse::Module { content: Arc::from(content), mtime: None, specifier: final_spec, maybe_headers: None }))
      }
      Ans::Missing => Ok(None),
      Ans::Error => Err(other_load_error("scripted loader error")),
      Ans::Redirect(t) => Ok(Some(LoadResponse::Redirect { specifier: ModuleSpecifier::parse(&t).unwrap() })),
      Ans::External => Ok(Some(LoadResponse::External { specifier: specifier.clone() })),
    }
  }
}

fn cache_setting_str(c: CacheSetting) -> &'static str {
  match c {
    CacheSetting::Only => "only",
    CacheSetting::Use => "use",
    CacheSetting::Reload => "reload",
  }
}

impl Loader for RegLoader {
  fn load(&self, specifier: &ModuleSpecifier, options: LoadOptions) -> LoadFuture {
    if self.log.borrow().len() >= self.budget {
      panic!("{}", NONTERMINATION_MARKER);
    }
    self.calls.fetch_add(1, std::sync::atomic::Ordering::SeqCst);
    let checksum = options.maybe_checksum.map(|c| c.into_string());
    self.log.borrow_mut().push(LoadCall {
      specifier: specifier.to_string(),
      ensure_cached: false,
      cache_setting: cache_setting_str(options.cache_setting),
      checksum: checksum.clone(),
      in_dynamic_branch: options.in_dynamic_branch,
      was_dynamic_root: options.was_dynamic_root,
    });
    let r = self.respond(specifier, options.cache_setting, checksum.as_deref());
    Box::pin(async move { r })
  }

  fn ensure_cached(&self, specifier: &ModuleSpecifier, options: LoadOptions) -> deno_graph::source::EnsureCachedFuture {
    if self.log.borrow().len() >= self.budget {
      panic!("{}", NONTERMINATION_MARKER);
    }
    self.calls.fetch_add(1, std::sync::atomic::Ordering::SeqCst);
    let checksum = options.maybe_checksum.map(|c| c.into_string());
    self.log.borrow_mut().push(LoadCall {
      specifier: specifier.to_string(),
      ensure_cached: true,
      cache_setting: cache_setting_str(options.cache_setting),
      checksum: checksum.clone(),
      in_dynamic_branch: options.in_dynamic_branch,
      was_dynamic_root: options.was_dynamic_root,
    });
    let r = self.respond(specifier, options.cache_setting, checksum.as_deref()).map(|v| {
      v.map(|r| match r {
        LoadResponse::Redirect { specifier } => deno_graph::source::CacheResponse::Redirect { specifier },
        _ => deno_graph::source::CacheResponse::Cached,
      })
    });
    Box::pin(async move { r })
  }
}

#[derive(Debug, Default)]
pub struct RecReporter {
  /// (loader calls made before the event, requirement, selection)
  pub resolved: Mutex<Vec<(usize, String, String)>>,
  pub calls: Arc<std::sync::atomic::AtomicUsize>,
}
impl Reporter for RecReporter {
  fn on_resolve(&self, req: &PackageReq, nv: &PackageNv) {
    let at = self.calls.load(std::sync::atomic::Ordering::SeqCst);
    self.resolved.lock().unwrap().push((at, req.to_string(), nv.to_string()));
  }
}

#[derive(Debug, Default)]
pub struct RegLocker {
  pub remote: BTreeMap<String, String>,
  pub manifests: BTreeMap<String, String>,
  /// every call on the interface, in order
  pub calls: Vec<String>,
  pub writes: Vec<(String, String)>,
}

impl Locker for RegLocker {
  fn get_remote_checksum(&self, specifier: &ModuleSpecifier) -> Option<LoaderChecksum> {
    self.remote.get(specifier.as_str()).map(|c| LoaderChecksum::new(c.clone()))
  }
  fn has_remote_checksum(&self, specifier: &ModuleSpecifier) -> bool {
    self.remote.contains_key(specifier.as_str())
  }
  fn set_remote_checksum(&mut self, specifier: &ModuleSpecifier, checksum: LoaderChecksum) {
    let c = checksum.into_string();
    self.calls.push(format!("set-remote {} {}", specifier, c));
    self.writes.push((specifier.to_string(), c.clone()));
    self.remote.insert(specifier.to_string(), c);
  }
  fn get_pkg_manifest_checksum(&self, nv: &PackageNv) -> Option<LoaderChecksum> {
    self.manifests.get(&nv.to_string()).map(|c| LoaderChecksum::new(c.clone()))
  }
  fn set_pkg_manifest_checksum(&mut self, nv: &PackageNv, checksum: LoaderChecksum) {
    let c = checksum.into_string();
    self.calls.push(format!("set-manifest {} {}", nv, c));
    self.writes.push((nv.to_string(), c.clone()));
    self.manifests.insert(nv.to_string(), c);
  }
}

pub struct Built {
  pub graph: ModuleGraph,
  pub log: Vec<LoadCall>,
  pub resolved: Vec<(usize, String, String)>,
  pub locker: Option<RegLocker>,
}

pub fn initial_locker(w: &RegWorld) -> Option<RegLocker> {
  if !w.has_locker {
    return None;
  }
  let mut l = RegLocker::default();
  for (nv, good) in &w.lock_manifests {
    let (name, version) = nv.rsplit_once('@').unwrap();
    if let Some((p, v)) = w.find(name, version) {
      let bytes = w.ver_meta_json(p, v);
      let c = if *good { sha256_hex(&bytes) } else { sha256_hex(b"other manifest") };
      l.manifests.insert(nv.clone(), c);
    }
  }
  let served = w.served();
  for (u, good) in &w.lock_remote {
    if let Some(Served { fresh: Ans::Bytes(b), .. }) = served.get(u) {
      l.remote.insert(u.clone(), if *good { sha256_hex(b) } else { sha256_hex(b"bytes the lockfile was made from") });
    }
  }
  Some(l)
}

pub fn version_resolver(w: &RegWorld) -> JsrVersionResolver {
  JsrVersionResolver {
    newest_dependency_date_options: NewestDependencyDateOptions {
      date: w.cutoff_day.map(|d| NewestDependencyDate(day(d))),
      exclude_jsr_pkgs: w.excl.iter().map(|s| deno_semver::package::PackageName::from_str(s)).collect(),
      exclude_jsr_pkg_prefixes: w.excl_prefixes.iter().map(|s| deno_semver::package::PackageName::from_str(s)).collect(),
    },
  }
}

/// Build the world's graph (fresh, or continuing `graph`) from `roots`.
pub fn try_build_reg(
  w: &RegWorld,
  loader: &RegLoader,
  graph: ModuleGraph,
  roots: Vec<String>,
) -> Result<Built, crate::build::BuildFailure> {
  let mut graph = graph;
  if graph.packages.mappings().is_empty() && !w.seeds.is_empty() {
    // through the public entry point for lockfile contents; the lockfile's redirect section is given
    // `jsr:`-keyed entries as well (into another version than the pinned one): those are not redirects
    // the graph may follow - a `jsr:` specifier is resolved through the registry
    let mut reqs: Vec<(deno_semver::jsr::JsrDepPackageReq, String)> = vec![];
    let mut redirects: Vec<(String, String)> = vec![];
    for (name, req, ver) in &w.seeds {
      if let Ok(r) = deno_semver::package::PackageReq::from_str(&format!("{}@{}", name, req)) {
        reqs.push((deno_semver::jsr::JsrDepPackageReq::jsr(r), ver.clone()));
        if let Some(p) = w.pkgs.iter().find(|p| p.name == *name) {
          if let Some(other) = p.versions.iter().find(|v| v.version != *ver) {
            for sub in ["", "/sub"] {
              redirects.push((format!("jsr:{}@{}{}", name, req, sub), file_url(name, &other.version, "/mod.ts")));
            }
          }
        }
      }
    }
    graph.fill_from_lockfile(deno_graph::FillFromLockfileOptions {
      redirects: redirects.iter().map(|(a, b)| (a.as_str(), b.as_str())),
      package_specifiers: reqs.iter().map(|(a, b)| (a, b.as_str())),
    });
  }
  let reporter = RecReporter { resolved: Mutex::new(vec![]), calls: loader.calls.clone() };
  let mut locker = initial_locker(w);
  let resolver = version_resolver(w);
  let roots: Vec<ModuleSpecifier> = roots.iter().map(|r| ModuleSpecifier::parse(r).unwrap()).collect();
  crate::watchdog::enter(w.describe());
  let r = std::panic::catch_unwind(std::panic::AssertUnwindSafe(|| {
    let options = BuildOptions {
      skip_dynamic_deps: w.skip_dynamic_deps,
      executor: &InlineExecutor,
      locker: locker.as_mut().map(|l| l as &mut dyn Locker),
      jsr_version_resolver: std::borrow::Cow::Borrowed(&resolver),
      passthrough_jsr_specifiers: w.passthrough,
      prefer_cached_jsr_versions: w.prefer_cached,
      reporter: Some(&reporter),
      ..Default::default()
    };
    crate::build::block_on(graph.build(roots, vec![], loader, options));
  }));
  crate::watchdog::leave();
  match r {
    Ok(()) => Ok(Built { graph, log: loader.log.borrow().clone(), resolved: reporter.resolved.into_inner().unwrap(), locker }),
    Err(e) => {
      let msg = crate::build::panic_message(e);
      if msg.contains(NONTERMINATION_MARKER) {
        Err(crate::build::BuildFailure::NonTermination)
      } else {
        Err(crate::build::BuildFailure::Panic(msg))
      }
    }
  }
}

pub fn build_reg(w: &RegWorld, loader: &RegLoader) -> Result<Built, crate::build::BuildFailure> {
  try_build_reg(w, loader, ModuleGraph::new(w.kind), w.roots.clone())
}

// ---------------------------------------------------------------------------------------------
// generator

#[derive(Clone, Debug)]
pub struct RegCfg {
  pub n_pkgs: usize,
  pub max_versions: usize,
  pub nested: bool,
  pub faults: bool,
  pub options: bool,
}

impl Default for RegCfg {
  fn default() -> Self {
    RegCfg { n_pkgs: 3, max_versions: 4, nested: true, faults: false, options: true }
  }
}

pub const PKG_NAMES: &[&str] = &["@s/a", "@s/b", "@t/c", "@t/d"];

fn pick<'a, T>(rng: &mut Rng, l: &'a [T]) -> &'a T {
  &l[rng.below(l.len())]
}

fn gen_jsr_text(rng: &mut Rng, names: &[String]) -> String {
  let name = pick(rng, names).clone();
  let req = if rng.chance(1, 40) { "@latest" } else { *pick(rng, REQS) };
  let sub = match rng.below(6) {
    0 => "/sub",
    1 => "/nope",
    _ => "",
  };
  format!("jsr:{}{}{}", name, req, sub)
}

fn gen_import(rng: &mut Rng, text: String, typed: bool) -> Item {
  let form = match rng.below(12) {
    0 | 1 => Form::Dynamic,
    2 => Form::ExportAll,
    3 if typed => Form::ImportType,
    4 => Form::SideEffect,
    _ => Form::Namespace,
  };
  Item { form, text }
}

pub fn gen_reg_world(rng: &mut Rng, cfg: &RegCfg) -> RegWorld {
  let n_pkgs = 1 + rng.below(cfg.n_pkgs.max(1));
  let names: Vec<String> = PKG_NAMES.iter().take(n_pkgs).map(|s| s.to_string()).collect();
  let mut pkgs = vec![];
  for name in &names {
    let nv = 1 + rng.below(cfg.max_versions.max(1));
    let mut chosen: Vec<&str> = vec![];
    while chosen.len() < nv {
      let v = *pick(rng, VERSIONS);
      if !chosen.contains(&v) {
        chosen.push(v);
      }
    }
    // registry order is whatever the JSON object gives; keep generation order
    let mut versions = vec![];
    for v in chosen {
      let has_sub = rng.chance(2, 3);
      let exports = match rng.below(8) {
        0 => ExportsDesc::Str("./mod.ts".into()),
        1 => ExportsDesc::Obj(vec![(".".into(), Some("./mod.ts".into())), ("./sub".into(), None)]),
        2 if cfg.faults => ExportsDesc::Other,
        _ => {
          let mut m = vec![(".".to_string(), Some("./mod.ts".to_string()))];
          if has_sub {
            m.push(("./sub".into(), Some(if rng.chance(1, 4) { "./lib/sub.ts".into() } else { "./sub.ts".into() })));
          }
          if rng.chance(1, 5) {
            m.push(("./data".into(), Some("./data.json".into())));
          }
          ExportsDesc::Obj(m)
        }
      };
      let mut files = vec![];
      let mut paths: Vec<String> = vec!["/mod.ts".into()];
      for n in exports.names() {
        if let Some(p) = exports.lookup(&n) {
          let p = p.trim_start_matches('.').to_string();
          if !paths.contains(&p) {
            paths.push(p);
          }
        }
      }
      if rng.chance(1, 2) {
        paths.push("/util.ts".into());
      }
      if rng.chance(1, 6) {
        paths.push("/types.d.ts".into());
      }
      if rng.chance(1, 6) {
        paths.push("/impl.js".into());
      }
      if rng.chance(1, 5) {
        paths.push("/calc.wasm".into());
      }
      for path in &paths {
        let mut items = vec![];
        if path.ends_with(".json") {
          files.push(RegFile { path: path.clone(), items, raw: Some(b"{\"k\": 1}".to_vec()), manifest: ManifestEntry::Ok, fault: Fault::None, tampered_cache: false });
          continue;
        }
        if path.ends_with(".wasm") {
          // a WebAssembly module importing another file of the package
          let imports: Vec<String> = if paths.iter().any(|p| p == "/util.ts") && rng.chance(1, 2) { vec!["./util.ts".to_string()] } else { vec![] };
          files.push(RegFile {
            path: path.clone(),
            items: imports.iter().map(|t| Item { form: Form::SideEffect, text: t.clone() }).collect(),
            raw: Some(crate::world::wasm_bytes(&imports)),
            manifest: ManifestEntry::Ok,
            fault: Fault::None,
            tampered_cache: false,
          });
          continue;
        }
        let typed = crate::world::is_typed_ext(ext_of_path(path));
        // relative imports inside the package
        for other in &paths {
          if other != path && rng.chance(1, 3) && !(other == "/mod.ts") {
            let rel = format!(".{}", other);
            let rel = if path.starts_with("/lib/") { format!("..{}", other) } else { rel };
            if other.ends_with(".json") {
              items.push(Item { form: Form::With("json".into()), text: rel });
            } else if rng.chance(1, 14) {
              // an attribute type that does not fit the target: an error entry whichever way the module is learnt about
              let t = *pick(rng, &["json", "stylesheet", "text"]);
              items.push(Item { form: Form::With(t.into()), text: rel });
            } else if other.ends_with(".wasm") && rng.chance(1, 2) {
              // a source-phase import: the WebAssembly file is an asset then, whichever way it is learnt about
              items.push(Item { form: Form::SourcePhase, text: rel });
            } else if other.ends_with(".d.ts") && path.ends_with(".js") {
              items.push(Item { form: Form::SelfTypes, text: rel });
            } else if other.ends_with(".d.ts") && rng.chance(1, 2) {
              items.push(Item { form: Form::TsTypes(rel.clone()), text: "./impl.js".into() });
            } else {
              items.push(gen_import(rng, rel, typed));
            }
          }
        }
        if cfg.nested {
          let k = rng.below(3);
          for _ in 0..k {
            let text = match rng.below(10) {
              0 => "npm:chalk@5".to_string(),
              1 => "npm:@types/node@^20".to_string(),
              2 => {
                // an https URL into the registry
                let n = pick(rng, &names).clone();
                let v = *pick(rng, VERSIONS);
                file_url(&n, v, "/mod.ts")
              }
              3 => "node:fs".to_string(),
              _ => gen_jsr_text(rng, &names),
            };
            items.push(gen_import(rng, text, typed));
          }
        }
        files.push(RegFile { path: path.clone(), items, raw: None, manifest: ManifestEntry::Ok, fault: Fault::None, tampered_cache: false });
      }
      if cfg.faults {
        for f in files.iter_mut() {
          if rng.chance(1, 12) {
            f.manifest = *pick(rng, &[ManifestEntry::Absent, ManifestEntry::Bad, ManifestEntry::NoPrefix]);
          }
          if rng.chance(1, 14) {
            f.fault = *pick(rng, &[Fault::Missing, Fault::Error, Fault::Redirect, Fault::External]);
          }
          if rng.chance(1, 20) {
            f.tampered_cache = true;
          }
        }
      }
      versions.push(RegVer {
        version: v.to_string(),
        yanked: rng.chance(1, 4),
        created_day: match rng.below(3) {
          0 => None,
          1 => Some(10),
          _ => Some(50),
        },
        exports,
        files,
        mg: *pick(rng, &[MgKind::None, MgKind::V2, MgKind::V2, MgKind::V1]),
        fault: if cfg.faults && rng.chance(1, 10) {
          *pick(rng, &[Fault::Missing, Fault::Error, Fault::Malformed, Fault::Redirect, Fault::External])
        } else {
          Fault::None
        },
        lockfile_checksum: rng.chance(1, 10).then(|| "vendored-checksum".to_string()),
      });
    }
    let stale = if cfg.faults && versions.len() > 1 && rng.chance(1, 6) {
      Some(versions.iter().take(versions.len() - 1).map(|v| v.version.clone()).collect())
    } else {
      None
    };
    pkgs.push(RegPkg {
      name: name.clone(),
      versions,
      fault: if cfg.faults && rng.chance(1, 12) {
        *pick(rng, &[Fault::Missing, Fault::Error, Fault::Malformed, Fault::Redirect, Fault::External])
      } else {
        Fault::None
      },
      stale,
    });
  }
  // user program
  let mut user = vec![];
  let n_user = 1 + rng.below(2);
  for i in 0..n_user {
    let url = if i == 0 { "file:///main.ts".to_string() } else { format!("https://x.test/m{}.ts", i) };
    let mut items = vec![];
    let k = 1 + rng.below(5);
    for _ in 0..k {
      let text = if rng.chance(1, 10) {
        let n = pick(rng, &names).clone();
        file_url(&n, *pick(rng, VERSIONS), "/mod.ts")
      } else {
        gen_jsr_text(rng, &names)
      };
      items.push(gen_import(rng, text, true));
    }
    if i == 0 && n_user > 1 {
      items.push(Item { form: Form::Namespace, text: "https://x.test/m1.ts".into() });
    }
    user.push(UserFile { url, items });
  }
  let mut cached = BTreeSet::new();
  let cache_mode = rng.below(4);
  for p in &pkgs {
    for v in &p.versions {
      let hit = match cache_mode {
        0 => false,
        1 => true,
        _ => rng.chance(1, 2),
      };
      if hit {
        cached.insert(ver_meta_url(&p.name, &v.version));
      }
      for f in &v.files {
        if match cache_mode { 0 => false, 1 => true, _ => rng.chance(1, 2) } {
          cached.insert(file_url(&p.name, &v.version, &f.path));
        }
      }
    }
  }
  let has_locker = cfg.options && rng.chance(1, 2);
  let mut lock_manifests = vec![];
  if has_locker {
    for p in &pkgs {
      for v in &p.versions {
        if rng.chance(1, 4) {
          lock_manifests.push((format!("{}@{}", p.name, v.version), !cfg.faults || rng.chance(4, 5)));
        }
      }
    }
  }
  RegWorld {
    pkgs,
    user,
    roots: vec!["file:///main.ts".into()],
    kind: if cfg.options { *pick(rng, &[GraphKind::All, GraphKind::All, GraphKind::CodeOnly, GraphKind::TypesOnly]) } else { GraphKind::All },
    prefer_cached: cfg.options && rng.chance(1, 2),
    passthrough: cfg.options && rng.chance(1, 12),
    skip_dynamic_deps: cfg.options && rng.chance(1, 8),
    cutoff_day: if cfg.options && rng.chance(1, 3) { Some(30) } else { None },
    excl: if rng.chance(1, 4) { vec!["@s/a".into()] } else { vec![] },
    excl_prefixes: if rng.chance(1, 6) { vec!["@t/".into()] } else { vec![] },
    cached,
    has_locker,
    lock_manifests,
    lock_remote: vec![],
    seeds: vec![],
  }
}
