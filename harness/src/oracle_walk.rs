//! Property-side oracles for walks (C15) and validation (C02), written from the
//! statements, independent of the Lean model: a set-based BFS over
//! `Module::dependencies()` and a per-edge failure policy.
use crate::battery::*;
use crate::dump::Ctx;
use deno_graph::Dependency;
use deno_graph::GraphKind;
use deno_graph::MediaType;
use deno_graph::Module;
use deno_graph::ModuleError;
use deno_graph::ModuleErrorKind;
use deno_graph::ModuleGraph;
use deno_graph::ModuleSpecifier;
use deno_graph::Resolution;
use indexmap::IndexMap;
use std::collections::BTreeMap;
use std::collections::HashMap;
use std::collections::HashSet;
use std::collections::VecDeque;

#[derive(Debug, Clone, PartialEq, Eq)]
pub enum Visited {
  Module,
  Err(String),
  Redirect(ModuleSpecifier),
}

/// which media types can be type checked — written from the statement/docs, not from the table
pub fn oracle_checkable(mt: MediaType, check_js: bool) -> bool {
  use MediaType::*;
  match mt {
    TypeScript | Mts | Cts | Dts | Dmts | Dcts | Tsx | Json | Wasm => true,
    JavaScript | Jsx | Mjs | Cjs => check_js,
    _ => false,
  }
}

pub fn check_js_for(ctx: &Ctx, o: &WOpts, s: &ModuleSpecifier) -> bool {
  match &o.check_js {
    CheckJs::True => true,
    CheckJs::False => false,
    CheckJs::Custom(l) => l.iter().any(|i| ctx.specs.name(*i) == s.as_str()),
  }
}

pub enum SlotRef<'a> {
  Module(&'a Module),
  Err(&'a ModuleError),
  Pending,
}

pub fn slot_map(g: &ModuleGraph) -> HashMap<ModuleSpecifier, SlotRef<'_>> {
  g.verif_slots()
    .into_iter()
    .map(|(k, s, _)| {
      (
        k.clone(),
        match s {
          None => SlotRef::Pending,
          Some(Ok(m)) => SlotRef::Module(m),
          Some(Err(e)) => SlotRef::Err(e),
        },
      )
    })
    .collect()
}

/// the dependency list the options select for a visited module
pub fn selected_deps<'a>(ctx: &Ctx, o: &WOpts, key: &ModuleSpecifier, m: &'a Module) -> (&'a IndexMap<String, Dependency>, bool) {
  let check_types = o.kind.include_types() && oracle_checkable(m.media_type(), check_js_for(ctx, o, key));
  if check_types && o.prefer_fast_check {
    // stated independently of Module::dependencies_prefer_fast_check: a JS module that has a fast
    // check module offers that module's dependencies, every other module its own
    let deps = match m {
      Module::Js(js) => match js.fast_check_module() {
        Some(fc) => &fc.dependencies,
        None => &js.dependencies,
      },
      _ => m.dependencies(),
    };
    (deps, check_types)
  } else {
    (m.dependencies(), check_types)
  }
}

fn ok_spec(r: &Resolution) -> Option<&ModuleSpecifier> {
  match r {
    Resolution::Ok(ok) => Some(&ok.specifier),
    _ => None,
  }
}

/// The set a walk must yield (C15), as key -> what is there.
pub fn reachable(
  ctx: &Ctx,
  g: &ModuleGraph,
  o: &WOpts,
  roots: &[ModuleSpecifier],
  skip: &HashSet<ModuleSpecifier>,
) -> BTreeMap<ModuleSpecifier, Visited> {
  let slots = slot_map(g);
  let mut out = BTreeMap::new();
  let mut seen: HashSet<ModuleSpecifier> = HashSet::new();
  let mut queue: VecDeque<ModuleSpecifier> = VecDeque::new();
  let enqueue = |s: &ModuleSpecifier, seen: &mut HashSet<ModuleSpecifier>, queue: &mut VecDeque<ModuleSpecifier>| {
    if seen.insert(s.clone()) {
      queue.push_back(s.clone());
    }
  };
  for r in roots {
    enqueue(r, &mut seen, &mut queue);
  }
  for gi in g.imports.values() {
    for dep in gi.dependencies.values() {
      if let Some(s) = ok_spec(&dep.maybe_code) {
        enqueue(s, &mut seen, &mut queue);
      }
      if o.kind.include_types() {
        if let Some(s) = ok_spec(&dep.maybe_type) {
          enqueue(s, &mut seen, &mut queue);
        }
      }
    }
  }
  while let Some(s) = queue.pop_front() {
    match slots.get(&s) {
      Some(SlotRef::Pending) => {}
      Some(SlotRef::Err(e)) => {
        out.insert(s.clone(), Visited::Err(e.to_string_with_range()));
      }
      Some(SlotRef::Module(m)) => {
        let mut visit = true;
        if let Module::Js(js) = m {
          if o.kind.include_types() {
            let td = js.maybe_types_dependency.as_ref().and_then(|d| ok_spec(&d.dependency));
            if let Some(t) = td {
              enqueue(t, &mut seen, &mut queue);
              if o.kind == GraphKind::TypesOnly {
                visit = false; // an untyped module is replaced by its types dependency
              }
            } else if o.kind == GraphKind::TypesOnly
              && !oracle_checkable(js.media_type, check_js_for(ctx, o, &s))
            {
              visit = false;
            }
          }
        }
        if visit {
          out.insert(s.clone(), Visited::Module);
          if !skip.contains(&s) {
            let (deps, _) = selected_deps(ctx, o, &s, m);
            for dep in deps.values() {
              if dep.is_dynamic && !o.follow_dynamic {
                continue;
              }
              if let Some(t) = ok_spec(&dep.maybe_code) {
                enqueue(t, &mut seen, &mut queue);
              }
              if o.kind.include_types() {
                if let Some(t) = ok_spec(&dep.maybe_type) {
                  enqueue(t, &mut seen, &mut queue);
                }
              }
            }
          }
        }
      }
      None => {
        if let Some(to) = g.redirects.get(&s) {
          out.insert(s.clone(), Visited::Redirect(to.clone()));
          if !skip.contains(&s) {
            enqueue(to, &mut seen, &mut queue);
          }
        }
      }
    }
  }
  out
}

pub fn visited_tokens(ctx: &mut Ctx, v: &BTreeMap<ModuleSpecifier, Visited>) -> Vec<String> {
  let mut out: Vec<String> = v
    .iter()
    .map(|(k, e)| {
      let key = ctx.spec(k);
      match e {
        Visited::Module => format!("{}:m", key),
        Visited::Err(t) => format!("{}:e{}", key, ctx.errors.id(t)),
        Visited::Redirect(to) => format!("{}:r{}", key, ctx.spec(to)),
      }
    })
    .collect();
  out.sort();
  out
}

/// One failure the statement of C02 says must fail validation.
#[derive(Debug, Clone, PartialEq, Eq, PartialOrd, Ord)]
pub struct ExpectedFailure {
  /// token in the battery's error format, or a class of acceptable tokens
  pub token: String,
  /// for a visited `Missing` entry under follow_dynamic: any of these tokens counts as surfaced
  pub alternatives: Vec<String>,
  pub why: String,
  /// a `Missing` entry that is the (redirect-followed) target of a followed dependency of a
  /// visited module: with follow_dynamic it must be reported in place at that import
  pub is_dependency_target: bool,
}

/// Every failure reachable along the selected edges, per the statement of C02/C15.
pub fn expected_failures(
  ctx: &mut Ctx,
  g: &ModuleGraph,
  o: &WOpts,
  visited: &BTreeMap<ModuleSpecifier, Visited>,
) -> Vec<ExpectedFailure> {
  let slots = slot_map(g);
  let mut out = vec![];
  // where the followed dependencies of visited modules end up (walk semantics: a redirect entry
  // is only consulted when there is no slot)
  // value: tokens of policy errors reported for an edge ending there (such an edge is reported
  // as failing by its own error; the missing target behind it is then not reported separately)
  let mut dep_ends: HashMap<ModuleSpecifier, Vec<String>> = HashMap::new();
  for (key, v) in visited {
    if let (Visited::Module, Some(SlotRef::Module(m))) = (v, slots.get(key)) {
      // (target, specifier text, is type side)
      let mut targets: Vec<(&ModuleSpecifier, String, bool, &deno_graph::Range)> = vec![];
      if o.kind.include_types() {
        if let Some(td) = m.maybe_types_dependency() {
          if let Resolution::Ok(ok) = &td.dependency {
            targets.push((&ok.specifier, td.specifier.clone(), true, &ok.range));
          }
        }
      }
      let (deps, check_types) = selected_deps(ctx, o, key, m);
      for (text, dep) in deps {
        if dep.is_dynamic && !o.follow_dynamic {
          continue;
        }
        if let Resolution::Ok(ok) = &dep.maybe_code {
          targets.push((&ok.specifier, text.clone(), false, &ok.range));
        }
        if check_types {
          if let Resolution::Ok(ok) = &dep.maybe_type {
            targets.push((&ok.specifier, text.clone(), true, &ok.range));
          }
        }
      }
      for (t, text, types, range) in targets {
        let tag = if types { "T:" } else { "R:" };
        let rs = key.scheme();
        let ss = t.scheme();
        let mut policy = vec![];
        if rs == "https" && ss == "http" {
          policy.push(format!("{}dg{}@{}", tag, ctx.spec(t), ctx.ranges.id(&range.to_string())));
        } else if (rs == "https" || rs == "http") && ss == "file" && text.to_lowercase().starts_with("file://") {
          policy.push(format!("{}li{}@{}", tag, ctx.spec(t), ctx.ranges.id(&range.to_string())));
        }
        let mut cur = t.clone();
        let mut guard = 0;
        while !slots.contains_key(&cur) && guard < 64 {
          match g.redirects.get(&cur) {
            Some(n) => cur = n.clone(),
            None => break,
          }
          guard += 1;
        }
        dep_ends.entry(cur).or_default().extend(policy);
      }
    }
  }
  for (key, v) in visited {
    match v {
      Visited::Redirect(_) => {}
      Visited::Err(_) => {
        let Some(SlotRef::Err(e)) = slots.get(key) else { continue };
        let token = format!("M{}", ctx.errors.id(&e.to_string_with_range()));
        let mut alternatives = vec![];
        if let ModuleErrorKind::Missing { specifier, .. } = e.as_kind() {
          // may be surfaced "in place" as a dynamic missing error of the same specifier
          alternatives.push(format!("MD{}@", ctx.spec(specifier)));
          if o.follow_dynamic {
            // ... or the import that points at it is itself reported as a policy violation
            if let Some(p) = dep_ends.get(key) {
              alternatives.extend(p.iter().cloned());
            }
          }
        }
        out.push(ExpectedFailure {
          token,
          alternatives,
          why: format!("error entry at {}", key),
          is_dependency_target: dep_ends.contains_key(key),
        });
      }
      Visited::Module => {
        let Some(SlotRef::Module(m)) = slots.get(key) else { continue };
        let check = |ctx: &mut Ctx, types: bool, text: &str, r: &Resolution, _dynamic: bool, out: &mut Vec<ExpectedFailure>| {
          let tag = if types { "T:" } else { "R:" };
          match r {
            Resolution::None => {}
            Resolution::Err(e) => out.push(ExpectedFailure {
              token: format!("{}c{}", tag, ctx.errors.id(&e.to_string_with_range())),
              alternatives: vec![],
              why: format!("failed resolution of {:?} in {}", text, key),
              is_dependency_target: false,
            }),
            Resolution::Ok(ok) => {
              let rs = key.scheme();
              let ss = ok.specifier.scheme();
              if rs == "https" && ss == "http" {
                out.push(ExpectedFailure {
                  token: format!("{}dg{}@{}", tag, ctx.spec(&ok.specifier), ctx.ranges.id(&ok.range.to_string())),
                  alternatives: vec![],
                  why: format!("https -> http import {:?} in {}", text, key),
                  is_dependency_target: false,
                });
              } else if (rs == "https" || rs == "http") && ss == "file" && text.to_lowercase().starts_with("file://") {
                out.push(ExpectedFailure {
                  token: format!("{}li{}@{}", tag, ctx.spec(&ok.specifier), ctx.ranges.id(&ok.range.to_string())),
                  alternatives: vec![],
                  why: format!("remote module importing literal file: URL {:?} in {}", text, key),
                  is_dependency_target: false,
                });
              }
            }
          }
        };
        if o.kind.include_types() {
          if let Some(td) = m.maybe_types_dependency() {
            check(ctx, true, &td.specifier, &td.dependency, false, &mut out);
          }
        }
        let (deps, check_types) = selected_deps(ctx, o, key, m);
        for (text, dep) in deps {
          if dep.is_dynamic && !o.follow_dynamic {
            continue;
          }
          check(ctx, false, text, &dep.maybe_code, dep.is_dynamic, &mut out);
          if check_types {
            check(ctx, true, text, &dep.maybe_type, dep.is_dynamic, &mut out);
          }
        }
      }
    }
  }
  out
}

/// does the implementation's error list surface this expected failure?
pub fn surfaced(f: &ExpectedFailure, got: &[String]) -> bool {
  got.iter().any(|t| *t == f.token || f.alternatives.iter().any(|a| t.starts_with(a.as_str())))
}
