//! C05 — known checksums are always enforced; new ones are recorded faithfully (remote modules).
use crate::absworld::*;
use crate::build::*;
use crate::c01::MODEL_FUEL;
use crate::c01::world_cfg;
use crate::dump::Ctx;
use crate::report::*;
use crate::rng::Rng;
use crate::walkprops::Batch;
use crate::world::*;
use deno_graph::Module;
use deno_graph::ModuleGraph;
use deno_graph::ModuleSpecifier;
use deno_graph::source::LoaderChecksum;
use deno_graph::source::Locker;
use deno_semver::package::PackageNv;
use serde_json::json;
use std::collections::HashMap;

#[derive(Default)]
pub struct RecordingLocker {
  pub remote: HashMap<ModuleSpecifier, String>,
  pub initial: HashMap<ModuleSpecifier, String>,
  pub writes: Vec<(String, String)>,
  pub pkg: HashMap<PackageNv, String>,
  pub pkg_writes: Vec<(String, String)>,
}

impl Locker for RecordingLocker {
  fn get_remote_checksum(&self, specifier: &ModuleSpecifier) -> Option<LoaderChecksum> {
    self.remote.get(specifier).map(|c| LoaderChecksum::new(c.clone()))
  }
  fn has_remote_checksum(&self, specifier: &ModuleSpecifier) -> bool {
    self.remote.contains_key(specifier)
  }
  fn set_remote_checksum(&mut self, specifier: &ModuleSpecifier, checksum: LoaderChecksum) {
    self.writes.push((specifier.to_string(), checksum.clone().into_string()));
    self.remote.insert(specifier.clone(), checksum.into_string());
  }
  fn get_pkg_manifest_checksum(&self, package_nv: &PackageNv) -> Option<LoaderChecksum> {
    self.pkg.get(package_nv).map(|c| LoaderChecksum::new(c.clone()))
  }
  fn set_pkg_manifest_checksum(&mut self, package_nv: &PackageNv, checksum: LoaderChecksum) {
    self.pkg_writes.push((package_nv.to_string(), checksum.clone().into_string()));
    self.pkg.insert(package_nv.clone(), checksum.into_string());
  }
}

pub fn locker_for(w: &World) -> RecordingLocker {
  let mut l = RecordingLocker::default();
  for (i, _) in &w.lock {
    let c = w.locked_checksum(*i).unwrap();
    l.remote.insert(w.specs[*i].clone(), c.clone());
    l.initial.insert(w.specs[*i].clone(), c);
  }
  l
}

pub fn build_with_locker(w: &World, loader: &ScriptedLoader, locker: &mut RecordingLocker) -> Result<ModuleGraph, BuildFailure> {
  let mut graph = ModuleGraph::new(w.kind);
  let roots = w.roots.iter().map(|r| w.specs[*r].clone()).collect::<Vec<_>>();
  crate::watchdog::enter(w.describe());
  let r = std::panic::catch_unwind(std::panic::AssertUnwindSafe(|| {
    block_on(graph.build(roots, referrer_imports(w), loader, build_options(w, Some(locker))));
    graph
  }));
  crate::watchdog::leave();
  r.map_err(|e| {
    let m = panic_message(e);
    if m.contains(NONTERMINATION_MARKER) { BuildFailure::NonTermination } else { BuildFailure::Panic(m) }
  })
}

pub fn run(tier: &str, seed: u64) -> Report {
  let mut report = Report::new("C05");
  report.rule = "generated worlds (as C01, mostly remote) with a lockfile: every remote entry independently absent / \
    matching / mismatching, a third of the locked entries with tampered cached bytes (a cache-bypassing reload serves the \
    real ones), a recording Locker and a loader that verifies the checksum it is given; compared with the Lean builder model: \
    slots, redirects, every loader call with cache setting and checksum, lockfile writes in order; oracle: every load of a \
    locked specifier presents its checksum, rejected content is never a module (integrity error after at most one reload), \
    a locked specifier that redirects is rejected, every new remote non-declaration module is recorded with the sha-256 of \
    the bytes used, existing entries are never overwritten; non-trivial = distinct (#locked, #mismatching, #tampered, #writes)"
    .into();
  quiet_panics();
  let mut rng = Rng::new(seed ^ 0xC05);
  let n = if tier == "thorough" { 12000 } else { 1500 };
  let mut batch = Batch::new();
  for wi in 0..n {
    let mut cfg = world_cfg(wi);
    cfg.remote = true;
    let mut wr = rng.fork();
    let mut w = gen_world(&mut wr, &cfg);
    w.has_locker = wi % 11 != 10;
    for i in 0..w.specs.len() {
      if !matches!(w.specs[i].scheme(), "http" | "https") {
        continue;
      }
      match rng.below(5) {
        0 | 1 => {}
        2 | 3 => w.lock.push((i, true)),
        _ => w.lock.push((i, false)),
      }
      // only text modules are tampered with (an appended comment keeps them parseable)
      if rng.chance(1, 4) && is_js_like_ext(&ext_of(&w.specs[i])) && matches!(w.resp[i], Resp::Module { raw: None, .. }) {
        w.tampered.push(i);
      }
      // the server moved the resource since the cached copy was made: a cache-bypassing retry is redirected
      if matches!(w.resp[i], Resp::Module { .. }) && w.lock.iter().any(|(j, _)| *j == i) && rng.chance(1, 5) {
        let t = rng.below(w.specs.len());
        if t != i {
          w.reload_redirect.push((i, t));
        }
      }
    }
    let desc = json!({"world": w.describe(), "world_index": wi});
    batch.descs.push(desc.clone());
    let mut ctx = Ctx::default();
    let req = build_request(&mut ctx, &w, &w.roots, MODEL_FUEL);
    let loader = ScriptedLoader::new(&w);
    let mut locker = locker_for(&w);
    report.evaluations += 1;
    let result = if w.has_locker { build_with_locker(&w, &loader, &mut locker) } else { try_build_world(&w, &loader) };
    let g = match result {
      Ok(g) => g,
      Err(f) => {
        report.fail("oracle", "build-did-not-finish", format!("{:?}", f), desc);
        continue;
      }
    };
    let log = loader.log.borrow().clone();
    batch.push(req, show_graph_with_writes(&mut ctx, &g, &log, &locker.writes), false);
    if wi < 1 {
      report.sample(json!({"world": w.describe(), "loader_calls": log.iter().map(|c| format!("{:?}", c)).collect::<Vec<_>>(), "lockfile_writes": locker.writes}));
    }
    if cfg.allow_inconsistent_finals {
      report.count("inconsistent-loader-world (correspondence only)");
      continue;
    }
    if !w.has_locker {
      if log.iter().any(|c| c.checksum.is_some()) {
        report.fail("oracle", "checksum-without-locker", "a checksum was presented although no locker is configured".into(), desc.clone());
      }
      continue;
    }
    // ---- 1. every load of a locked specifier presents its checksum -------------------------
    for c in &log {
      let s = ModuleSpecifier::parse(&c.specifier).unwrap();
      let expect = locker.initial.get(&s).cloned().or_else(|| {
        // a checksum recorded earlier in this build is known from then on
        None
      });
      if let Some(e) = expect {
        if c.checksum.as_deref() != Some(e.as_str()) {
          report.fail("oracle", "known-checksum-not-presented", format!("load of {} (ensure_cached={}, cache {}) presented {:?}, lockfile has {}", c.specifier, c.ensure_cached, c.cache_setting, c.checksum, e), desc.clone());
        }
      }
    }
    // ---- 2./3. rejected content never becomes a module; locked redirects are rejected -----------
    let mut reloads: HashMap<String, usize> = HashMap::new();
    for c in &log {
      if c.cache_setting == "reload" {
        *reloads.entry(c.specifier.clone()).or_insert(0) += 1;
      }
    }
    for (i, _) in &w.lock {
      let s = &w.specs[*i];
      let requested = log.iter().any(|c| c.specifier == s.as_str());
      if !requested {
        continue;
      }
      let locked = w.locked_checksum(*i).unwrap();
      let loads_of_s = log.iter().filter(|c| c.specifier == s.as_str() && c.cache_setting != "reload").count();
      if reloads.get(s.as_str()).copied().unwrap_or(0) > loads_of_s {
        report.fail("oracle", "more-than-one-retry", format!("{} was reloaded {} times for {} loads", s, reloads[s.as_str()], loads_of_s), desc.clone());
      }
      match &w.resp[*i] {
        Resp::Module { .. } => {
          let retry_redirected = w.reload_redirect.iter().any(|(e, _)| e == i);
          let fresh_ok = !retry_redirected && sha256_hex(&w.served(*i, true).unwrap()) == locked;
          let cached_ok = sha256_hex(&w.served(*i, false).unwrap()) == locked;
          // non-asset loads only: an asset load keeps no content in the graph
          let asset_only = log.iter().filter(|c| c.specifier == s.as_str()).all(|c| c.ensure_cached);
          // a loader that follows a redirect itself delivers this resource under another request:
          // deno_graph cannot present a checksum for a specifier it did not ask for
          let delivered_under_other_request = w.resp.iter().enumerate().any(|(j, r)| matches!(r, Resp::Module { final_spec, .. } if *final_spec == *i && j != *i));
          if delivered_under_other_request {
            report.count("info:locked-resource-delivered-through-loader-internal-redirect");
          }
          if !fresh_ok && !cached_ok && !asset_only && !delivered_under_other_request {
            // must be an integrity error, never a module
            match g.try_get(s) {
              Err(e) if err_kind(e).0 == "checksum" => report.count("mismatch-rejected"),
              Err(_) => {}
              Ok(m) => report.fail("oracle", "mismatching-content-admitted", format!("{}: lockfile checksum matches neither cached nor fresh bytes but the entry is {:?}", s, m.map(|m| m.specifier().to_string())), desc.clone()),
            }
          }
          if fresh_ok && !cached_ok {
            report.count("tampered-cache-recovered-by-reload");
          }
          if retry_redirected && !cached_ok && !delivered_under_other_request {
            // a checksummed URL that redirects is rejected, for module and asset loads alike
            match g.try_get(s) {
              Err(_) => report.count("checksummed-retry-redirect-rejected"),
              Ok(m) => report.fail(
                "oracle",
                "checksummed-url-admitted-although-its-retry-was-redirected",
                format!("{}: the cached bytes do not match the lockfile and the cache-bypassing retry was redirected, but the entry is {:?}", s, m.map(|m| m.specifier().to_string())),
                desc.clone(),
              ),
            }
          }
        }
        Resp::Redirect(_) => match g.try_get(s) {
          Err(e) if err_kind(e).0 == "checksumRedirect" => report.count("locked-redirect-rejected"),
          Err(_) => {}
          Ok(_) => {
            if !g.redirects.contains_key(s) {
              // not requested directly (reached only as a redirect hop of something else)
            } else {
              report.fail("oracle", "checksummed-redirect-followed", format!("{} has a lockfile checksum but its redirect was followed", s), desc.clone());
            }
          }
        },
        _ => {}
      }
    }
    // ---- 4. new checksums recorded faithfully; 5. never overwritten ---------------------------------
    for (s, c) in &locker.writes {
      let url = ModuleSpecifier::parse(s).unwrap();
      if locker.initial.contains_key(&url) {
        report.fail("oracle", "lockfile-entry-overwritten", format!("{} already had a lockfile entry", s), desc.clone());
      }
      let bytes: Option<Vec<u8>> = match g.get(&url) {
        Some(Module::Js(m)) => Some(m.source.text.as_bytes().to_vec()),
        Some(Module::Json(m)) => Some(m.source.text.as_bytes().to_vec()),
        Some(Module::Wasm(m)) => Some(m.source.to_vec()),
        _ => None,
      };
      // the bytes used are those served (from the cache or by the retry) for some entry answering
      // under this final specifier
      let served_variants: Vec<String> = (0..w.specs.len())
        .filter(|j| matches!(&w.resp[*j], Resp::Module { final_spec, .. } if w.specs[*final_spec] == url))
        .flat_map(|j| [w.served(j, false), w.served(j, true)])
        .flatten()
        .map(|b| sha256_hex(&b))
        .collect();
      match bytes {
        Some(b) => {
          if sha256_hex(&b) != *c && !served_variants.contains(c) {
            report.fail("oracle", "recorded-checksum-is-not-of-the-bytes-used", format!("{}: recorded {} but the module's bytes hash to {}", s, c, sha256_hex(&b)), desc.clone());
          }
        }
        None => {
          // the module may have been overwritten by a later error entry (finding F14)
          report.count("info:recorded-checksum-for-entry-later-overwritten");
        }
      }
    }
    for m in g.modules() {
      let s = m.specifier();
      let is_text = matches!(m, Module::Js(_) | Module::Json(_) | Module::Wasm(_));
      let decl = matches!(m.media_type(), deno_graph::MediaType::Dts | deno_graph::MediaType::Dmts | deno_graph::MediaType::Dcts);
      if is_text && !decl && matches!(s.scheme(), "http" | "https") && !locker.initial.contains_key(s) {
        if !locker.writes.iter().any(|(k, _)| k == s.as_str()) {
          report.fail("oracle", "new-remote-module-not-recorded", format!("{} is a new remote module but no checksum was handed to the lockfile", s), desc.clone());
        }
      }
    }
    report.nontrivial.insert(format!("l{}m{}t{}w{}", w.lock.len().min(6), w.lock.iter().filter(|x| !x.1).count().min(4), w.tampered.len().min(4), locker.writes.len().min(6)));
    report.count_n("lockfile-writes", locker.writes.len() as u64);
    report.count_n("loads-with-checksum", log.iter().filter(|c| c.checksum.is_some()).count() as u64);
  }
  registry_part(&mut report, tier, &mut rng);
  batch.finish(&mut report, "C05");
  report
}


/// registry worlds: checksums of package manifests (lockfile) and package files (version manifest)
pub fn registry_part(report: &mut Report, tier: &str, rng: &mut Rng) {
  use crate::registry::*;
  let n = if tier == "thorough" { 8000 } else { 1200 };
  for i in 0..n {
    let mut wr = rng.fork();
    let cfg = RegCfg { faults: i % 2 == 1, ..Default::default() };
    let mut w = gen_reg_world(&mut wr, &cfg);
    if i % 3 == 0 {
      w.has_locker = true;
      if w.lock_manifests.is_empty() {
        if let Some(p) = w.pkgs.first() {
          w.lock_manifests.push((format!("{}@{}", p.name, p.versions[0].version), i % 6 != 3));
        }
      }
    }
    if w.has_locker {
      // remote lockfile entries for package files that are imported by their https URL
      let mut urls: Vec<String> = vec![];
      for u in &w.user {
        for it in &u.items {
          if it.text.starts_with(REG) {
            urls.push(it.text.clone());
          }
        }
      }
      for p in &w.pkgs {
        for v in &p.versions {
          for f in &v.files {
            for it in &f.items {
              if it.text.starts_with(REG) {
                urls.push(it.text.clone());
              }
            }
          }
        }
      }
      urls.sort();
      urls.dedup();
      for u in urls {
        if i % 2 == 0 || rng.chance(1, 2) {
          w.lock_remote.push((u, rng.chance(1, 2)));
        }
      }
    }
    let loader = RegLoader::new(&w);
    let Ok(b) = build_reg(&w, &loader) else {
      report.fail("oracle", "registry-build-failed", "registry build failed".into(), w.describe());
      continue;
    };
    registry_oracle(&w, &b, report);
  }
}

pub fn registry_oracle(w: &crate::registry::RegWorld, b: &crate::registry::Built, report: &mut Report) {
  use crate::registry::*;
  let g = &b.graph;
  let initial = initial_locker(w);
  let replay = || w.describe();
  let parse_file = |u: &str| -> Option<(String, String, String)> {
    // https://jsr.io/@s/a/1.0.0/mod.ts -> (@s/a, 1.0.0, /mod.ts)
    let rest = u.strip_prefix(REG)?;
    let mut it = rest.splitn(4, '/');
    let scope = it.next()?;
    let name = it.next()?;
    let ver = it.next()?;
    let path = it.next()?;
    Some((format!("{}/{}", scope, name), ver.to_string(), format!("/{}", path)))
  };
  for c in &b.log {
    let u = c.specifier.as_str();
    if !u.starts_with(REG) {
      continue;
    }
    report.evaluations += 1;
    if u.ends_with("/meta.json") {
      if c.checksum.is_some() {
        report.fail("oracle", "checksum-presented-for-package-metadata", format!("{} loaded with checksum {:?}", u, c.checksum), replay());
      }
      continue;
    }
    if let Some(x) = u.strip_prefix(REG).and_then(|r| r.strip_suffix("_meta.json")) {
      // @s/a/1.0.0
      let (name, ver) = x.rsplit_once('/').unwrap();
      let nv = format!("{}@{}", name, ver);
      let want = if c.cache_setting == "only" { None } else { initial.as_ref().and_then(|l| l.manifests.get(&nv).cloned()) };
      // a checksum written earlier in this build (before a cache-busting restart) is known too
      let written_earlier = c.cache_setting != "only"
        && want.is_none()
        && c.checksum.is_some()
        && b.locker.as_ref().map(|l| l.calls.iter().any(|x| *x == format!("set-manifest {} {}", nv, c.checksum.clone().unwrap()))).unwrap_or(false);
      if c.checksum != want && !written_earlier {
        report.fail(
          "oracle",
          "package-manifest-load-does-not-present-lockfile-checksum",
          format!("{} ({}) loaded with checksum {:?}, lockfile says {:?}", u, c.cache_setting, c.checksum, want),
          replay(),
        );
      }
      report.count(if want.is_some() { "manifest-load:locked" } else { "manifest-load:unlocked" });
      continue;
    }
    let Some((name, ver, path)) = parse_file(u) else { continue };
    let Some((_, rv)) = w.find(&name, &ver) else {
      // a URL of a version the registry does not have: nothing to present
      continue;
    };
    let Some(f) = rv.files.iter().find(|f| f.path == path) else {
      // not in the manifest: the missing-checksum marker
      if c.checksum.as_deref() != Some("package-manifest-missing-checksum") {
        report.fail("oracle", "package-file-load-without-manifest-checksum", format!("{} (not in the manifest) loaded with checksum {:?}", u, c.checksum), replay());
      }
      continue;
    };
    let bytes = rv.file_bytes(f);
    let want = match f.manifest {
      ManifestEntry::Ok => Some(sha256_hex(&bytes)),
      ManifestEntry::Bad => Some(sha256_hex(b"something else")),
      ManifestEntry::Absent => Some("package-manifest-missing-checksum".to_string()),
      ManifestEntry::NoPrefix => {
        report.fail("oracle", "file-with-unsupported-manifest-checksum-loaded", format!("{} loaded although its manifest checksum is unsupported", u), replay());
        continue;
      }
    };
    report.count(&format!("file-load:{:?}:{}", f.manifest, c.cache_setting));
    report.nontrivial.insert(format!("file-load/{:?}/{}/{}", f.manifest, c.cache_setting, c.in_dynamic_branch as u8));
    if c.checksum != want {
      report.fail(
        "oracle",
        "package-file-load-does-not-present-manifest-checksum",
        format!("{} ({}) loaded with checksum {:?}; its version manifest says {:?}", u, c.cache_setting, c.checksum, want),
        replay(),
      );
    }
  }
  // content that does not match the manifest is never admitted
  for m in g.modules() {
    let u = m.specifier().as_str();
    let Some((name, ver, path)) = parse_file(u) else { continue };
    let Some((_, rv)) = w.find(&name, &ver) else { continue };
    let Some(f) = rv.files.iter().find(|f| f.path == path) else { continue };
    let bytes = rv.file_bytes(f);
    let text: Option<&str> = match m {
      Module::Js(js) => Some(&js.source.text),
      Module::Json(j) => Some(&j.source.text),
      _ => None,
    };
    report.evaluations += 1;
    if let Some(t) = text {
      if f.manifest != ManifestEntry::Ok {
        report.fail("oracle", "package-file-admitted-without-matching-manifest-checksum", format!("{} is a module although its manifest entry is {:?}", u, f.manifest), replay());
      }
      if t.as_bytes() != &bytes[..] {
        report.fail("oracle", "package-file-content-differs-from-published-bytes", format!("{}: admitted text differs from the bytes whose checksum the manifest holds", u), replay());
      }
    }
  }
  // lockfile interface
  if let (Some(l0), Some(l)) = (&initial, &b.locker) {
    let mut seen: std::collections::BTreeSet<String> = std::collections::BTreeSet::new();
    for call in &l.calls {
      report.evaluations += 1;
      let mut it = call.split(' ');
      let kind = it.next().unwrap();
      let key = it.next().unwrap().to_string();
      let val = it.next().unwrap().to_string();
      if kind == "set-manifest" {
        if l0.manifests.contains_key(&key) {
          report.fail("oracle", "lockfile-manifest-entry-overwritten", format!("{} already in the lockfile, set again to {}", key, val), replay());
        }
        let (name, ver) = key.rsplit_once('@').unwrap();
        if let Some((p, rv)) = w.find(name, ver) {
          let want = rv.lockfile_checksum.clone().unwrap_or_else(|| sha256_hex(&w.ver_meta_json(p, rv)));
          if val != want {
            report.fail("oracle", "wrong-manifest-checksum-recorded", format!("{} recorded as {} but the bytes used hash to {}", key, val, want), replay());
          }
        }
        if !seen.insert(key.clone()) {
          report.count("manifest-recorded-twice");
        }
        report.count("lock-write:manifest");
      } else if kind == "set-remote" {
        if key.starts_with(REG) {
          report.fail("oracle", "registry-file-recorded-as-remote-module", format!("{} handed to set_remote_checksum", key), replay());
        }
        if l0.remote.contains_key(&key) {
          report.fail("oracle", "lockfile-remote-entry-overwritten", format!("{} overwritten", key), replay());
        }
        report.count("lock-write:remote");
      }
    }
    // every newly seen package manifest is recorded
    for (nv, _) in g.packages.packages_with_deps() {
      let key = nv.to_string();
      if !l0.manifests.contains_key(&key) && !l.calls.iter().any(|c| c.starts_with(&format!("set-manifest {} ", key))) {
        report.fail("oracle", "new-package-manifest-not-recorded", format!("{} is in the graph's package table but its manifest checksum was never handed to the lockfile", key), replay());
      }
    }
    // ... and so is every manifest that supplied the checksum of a load, whether or not that load
    // succeeded (otherwise the manifest could be replaced unnoticed before the next run)
    for c in &b.log {
      let Some(rest) = c.specifier.strip_prefix(REG) else { continue };
      if c.checksum.is_none() || rest.ends_with("meta.json") {
        continue;
      }
      // https://jsr.io/@scope/name/version/path
      let seg: Vec<&str> = rest.splitn(4, '/').collect();
      if seg.len() < 4 {
        continue;
      }
      let key = format!("{}/{}@{}", seg[0], seg[1], seg[2]);
      if w.find(&format!("{}/{}", seg[0], seg[1]), seg[2]).is_none() {
        continue;
      }
      if !l0.manifests.contains_key(&key) && !l.calls.iter().any(|x| x.starts_with(&format!("set-manifest {} ", key))) {
        report.fail(
          "oracle",
          "new-package-manifest-not-recorded",
          format!("the load of {} presented a checksum from the manifest of {}, which is not in the lockfile and was never handed to it", c.specifier, key),
          replay(),
        );
        break;
      }
    }
  }
}
