//! C16 — symbol tables are well-formed trees; export resolution follows the ES rules; go-to-definition ends.
//! Each generated world is analysed in a child process (a stack overflow aborts the process).
use crate::report::*;
use crate::rng::Rng;
use crate::walkprops::Batch;
use deno_graph::BuildOptions;
use deno_graph::GraphKind;
use deno_graph::ModuleGraph;
use deno_graph::ModuleSpecifier;
use deno_graph::ast::CapturingModuleAnalyzer;
use deno_graph::source::MemoryLoader;
use deno_graph::source::Source;
use deno_graph::symbols::DefinitionOrUnresolved;
use deno_graph::symbols::FileDepName;
use deno_graph::symbols::SymbolDeclKind;
use deno_graph::symbols::ModuleInfoRef;
use deno_graph::symbols::RootSymbol;
use deno_graph::symbols::Symbol;
use deno_graph::symbols::SymbolId;
use serde_json::json;
use std::collections::BTreeSet;
use std::collections::HashSet;

#[derive(Clone, Debug)]
pub struct SymMod {
  pub url: String,
  pub text: String,
  /// ground truth: own export names in declaration order
  pub own: Vec<String>,
  /// star re-export targets (index of the module, or None when it does not exist)
  pub stars: Vec<Option<usize>>,
  /// ground truth: (path of an ambient namespace from the module, the names it exports)
  pub ambient: Vec<(Vec<String>, Vec<String>)>,
}

#[derive(Clone, Debug)]
pub struct SymWorld {
  pub mods: Vec<SymMod>,
  /// mutually recursive `export import a = M.b` aliases are present (known defect trigger)
  pub alias_cycle: bool,
}

pub fn gen_sym_world(rng: &mut Rng, idx: usize) -> SymWorld {
  let n = 2 + rng.below(4);
  let mut mods = vec![];
  let mut alias_cycle = false;
  for i in 0..n {
    let mut text = String::new();
    let mut own: Vec<String> = vec![];
    let mut stars: Vec<Option<usize>> = vec![];
    let mut ambient: Vec<(Vec<String>, Vec<&'static str>)> = vec![];
    let mut add = |own: &mut Vec<String>, name: &str| {
      if !own.iter().any(|x| x == name) {
        own.push(name.to_string());
      }
    };
    let k = 2 + rng.below(7);
    let mut has_default = false;
    // names several modules export: star re-exports of two of them collide (the first one wins)
    if rng.chance(1, 2) {
      let c = rng.below(2);
      text.push_str(&format!("export const common{} = {};\n", c, i));
      add(&mut own, &format!("common{}", c));
    }
    for j in 0..k {
      let id = format!("m{}_{}", i, j);
      match rng.below(24) {
        0 => {
          text.push_str(&format!("export const {} = 1;\n", id));
          add(&mut own, &id);
        }
        1 => {
          text.push_str(&format!("export function {}(a: string): void;\nexport function {}(a: number): void;\nexport function {}(a: any) {{}}\n", id, id, id));
          add(&mut own, &id);
        }
        2 => {
          // an instance member and a static member may share a name, in either order
          let same = match rng.below(4) {
            0 => "value = 1; static value = \"s\"; ",
            1 => "static value = \"s\"; value = 1; ",
            2 => "both(): void {} static both(): void {} ",
            _ => "",
          };
          text.push_str(&format!(
            "export class {} {{ {}static s = 1; #hidden = 2; private p = 1; constructor(public q: number) {{}} m(): void {{}} get g() {{ return 1; }} set g(v) {{}} static sm() {{}} }}\n",
            id, same
          ));
          if rng.chance(1, 3) {
            // declaration merging: an interface of the same name contributes instance members
            text.push_str(&format!("export interface {} {{ s: number; extra: string }}\n", id));
          }
          add(&mut own, &id);
        }
        3 => {
          text.push_str(&format!("export interface {} {{ a: string; m(): void; }}\nexport interface {} {{ b: number; (x: number): string; new (x: string): {}; [k: string]: any; }}\n", id, id, id));
          add(&mut own, &id);
        }
        4 if rng.chance(1, 2) => {
          text.push_str(&format!(
            "export namespace {} {{ export const inner = 1; const hidden = 2; export namespace Deep {{ export type T = string; export function f() {{}} }} export import alias = Deep.T; }}\n",
            id
          ));
          add(&mut own, &id);
        }
        4 => {
          // dotted namespace declarations of 2-4 segments
          let depth = 2 + rng.below(3);
          let segs: Vec<String> = (0..depth).map(|k| if k == 0 { id.clone() } else { format!("S{}", k) }).collect();
          text.push_str(&format!("export namespace {} {{ export const leaf = 1; export interface I {{ a: string }} }}\n", segs.join(".")));
          add(&mut own, &id);
        }
        5 => {
          text.push_str(&format!("export function {}() {{}}\nexport namespace {} {{ export const prop = 1; }}\n{}.expando = 5;\n{}.expando2 = () => 1;\n", id, id, id, id));
          add(&mut own, &id);
        }
        6 => {
          text.push_str(&format!("export type {} = string | number;\n", id));
          add(&mut own, &id);
        }
        7 => {
          text.push_str(&format!("export enum {} {{ A, B = 5 }}\n", id));
          add(&mut own, &id);
        }
        8 if !has_default => {
          has_default = true;
          match rng.below(4) {
            0 => text.push_str("export default class { m() {} }\n"),
            1 => text.push_str(&format!("export default function {}d() {{}}\n", id)),
            2 => text.push_str("export default 1 + 2;\n"),
            _ => text.push_str(&format!("const {}dv = 1;\nexport default {}dv;\n", id, id)),
          }
          add(&mut own, "default");
        }
        9 => {
          text.push_str(&format!("const {}p = 1;\nfunction {}pf() {{ return {}p; }}\nexport {{ {}p as {} }};\n", id, id, id, id, id));
          add(&mut own, &id);
        }
        10 | 11 if n > 1 => {
          // import / export aliases of another module's name
          let t = rng.below(n);
          let name = format!("m{}_0", t);
          if t != i {
            match rng.below(3) {
              0 => {
                text.push_str(&format!("import {{ {} as {}i }} from \"./m{}.ts\";\nexport {{ {}i }};\n", name, id, t, id));
                add(&mut own, &format!("{}i", id));
              }
              1 => {
                text.push_str(&format!("export {{ {} as {}r }} from \"./m{}.ts\";\n", name, id, t));
                add(&mut own, &format!("{}r", id));
              }
              _ => {
                text.push_str(&format!("export {{ default as {}dd }} from \"./m{}.ts\";\n", id, t));
                add(&mut own, &format!("{}dd", id));
              }
            }
          }
        }
        12 => {
          let t = rng.below(n + 1);
          text.push_str(&format!("export * as {}ns from \"./m{}.ts\";\n", id, t));
          add(&mut own, &format!("{}ns", id));
        }
        13 | 14 | 15 | 16 => {
          // star re-export, cycles and missing targets included
          let t = rng.below(n + 1);
          text.push_str(&format!("export * from \"./m{}.ts\";\n", t));
          stars.push(if t < n { Some(t) } else { None });
        }
        17 => {
          let t = rng.below(n);
          text.push_str(&format!("import * as {}all from \"./m{}.ts\";\nexport const {}u: typeof {}all = {}all;\n", id, t, id, id, id));
          add(&mut own, &format!("{}u", id));
        }
        18 => {
          text.push_str(&format!("export abstract class {} {{ abstract am(): void; protected pm() {{}} declare d: string; }}\n", id));
          add(&mut own, &id);
        }
        19 if rng.chance(1, 2) => {
          // an ambient namespace: whatever is declared inside it, at any depth, is exported from its
          // namespace, with or without the keyword
          text.push_str(&format!(
            "export declare namespace {} {{ namespace Inner {{ const hidden: number; function f(): void; interface I {{ a: string }} namespace Deepest {{ type T = string; }} export const visible: number; }} const top: number; export namespace Exp {{ const e: number; }} }}\n",
            id
          ));
          add(&mut own, &id);
          ambient.push((vec![id.clone()], vec!["Inner", "top", "Exp"]));
          ambient.push((vec![id.clone(), "Inner".into()], vec!["hidden", "f", "I", "Deepest", "visible"]));
          ambient.push((vec![id.clone(), "Inner".into(), "Deepest".into()], vec!["T"]));
          ambient.push((vec![id.clone(), "Exp".into()], vec!["e"]));
        }
        19 => {
          text.push_str(&format!("export declare function {}(x: number): string;\nexport declare const {}c: number;\ndeclare global {{ interface Window {{ {}w: number }} }}\n", id, id, id));
          add(&mut own, &id);
          add(&mut own, &format!("{}c", id));
        }
        20 => {
          text.push_str(&format!("export const {{ {}a, {}b: [{}c] }} = {{ {}a: 1, {}b: [2] }};\n", id, id, id, id, id));
          add(&mut own, &format!("{}a", id));
          add(&mut own, &format!("{}c", id));
        }
        21 | 22 | 23 if idx % 40 == 5 => {
          // mutually recursive qualified aliases (known defect trigger)
          text.push_str(&format!("export namespace {}N {{ export import a = {}M.b; }}\nexport namespace {}M {{ export import b = {}N.a; }}\n", id, id, id, id));
          add(&mut own, &format!("{}N", id));
          add(&mut own, &format!("{}M", id));
          alias_cycle = true;
        }
        _ => {
          text.push_str(&format!("const {}x = 1;\nfunction {}y() {{ return {}x; }}\n", id, id, id));
        }
      }
    }
    mods.push(SymMod { url: format!("file:///m{}.ts", i), text, own, stars, ambient: ambient.into_iter().map(|(p, e)| (p, e.into_iter().map(|x| x.to_string()).collect())).collect() });
  }
  // named imports / re-exports of names another module exports only through (chains of) star re-exports
  {
    let n = mods.len();
    let mut sets: Vec<BTreeSet<String>> = mods.iter().map(|mm| mm.own.iter().cloned().collect()).collect();
    loop {
      let mut changed = false;
      for a in 0..n {
        for t in mods[a].stars.clone().iter().flatten() {
          let add: Vec<String> = sets[*t].iter().filter(|x| x.as_str() != "default" && !sets[a].contains(*x)).cloned().collect();
          if !add.is_empty() {
            changed = true;
            sets[a].extend(add);
          }
        }
      }
      if !changed {
        break;
      }
    }
    for i in 0..n {
      for k in 0..rng.below(3) {
        let t = rng.below(n);
        if t == i {
          continue;
        }
        // prefer names the target does not declare itself
        let own_t: BTreeSet<&String> = mods[t].own.iter().collect();
        let via: Vec<&String> = sets[t].iter().filter(|x| !own_t.contains(x) && x.as_str() != "default").collect();
        let all: Vec<&String> = sets[t].iter().filter(|x| x.as_str() != "default").collect();
        let pool = if !via.is_empty() && rng.chance(3, 4) { via } else { all };
        if pool.is_empty() {
          continue;
        }
        let name = pool[rng.below(pool.len())].clone();
        let local = format!("v{}_{}", i, k);
        if rng.chance(1, 2) {
          mods[i].text.push_str(&format!("import {{ {} as {} }} from \"./m{}.ts\";\nexport {{ {} }};\n", name, local, t, local));
        } else {
          mods[i].text.push_str(&format!("export {{ {} as {} }} from \"./m{}.ts\";\n", name, local, t));
        }
        mods[i].own.push(local);
      }
    }
  }
  // named re-exports that form a cycle, and a module importing a name from itself: go-to-definition
  // has nothing to find there and must come back
  if rng.chance(1, 4) {
    let n = mods.len();
    let i = rng.below(n);
    let t = rng.below(n);
    let name = format!("cyc{}", idx % 97);
    if i != t {
      mods[i].text.push_str(&format!("export {{ {} }} from \"./m{}.ts\";\n", name, t));
      mods[t].text.push_str(&format!("export {{ {} }} from \"./m{}.ts\";\n", name, i));
      mods[i].own.push(name.clone());
      mods[t].own.push(name);
    } else {
      mods[i].text.push_str(&format!("import {{ {} }} from \"./m{}.ts\";\nexport {{ {} }};\n", name, i, name));
      mods[i].own.push(name);
    }
  }
  // a cycle of named re-exports that passes through a star re-export: i names it from t, t has it
  // through `export *` from u, u names it from i. Nothing declares it; go-to-definition must come back
  if rng.chance(1, 4) && mods.len() >= 3 {
    let n = mods.len();
    let i = rng.below(n);
    let t = (i + 1 + rng.below(n - 1)) % n;
    let u = (0..n).find(|x| *x != i && *x != t).unwrap();
    let name = format!("scyc{}", idx % 89);
    mods[i].text.push_str(&format!("export {{ {} }} from \"./m{}.ts\";\n", name, t));
    mods[t].text.push_str(&format!("export * from \"./m{}.ts\";\n", u));
    mods[t].stars.push(Some(u));
    mods[u].text.push_str(&format!("export {{ {} }} from \"./m{}.ts\";\n", name, i));
    mods[i].own.push(name.clone());
    mods[u].own.push(name);
  }
  // further cyclic topologies: namespace re-exports of each other, a renamed default handed round,
  // and a name imported and exported again by each of two modules
  if rng.chance(1, 5) && mods.len() >= 2 {
    let n = mods.len();
    let i = rng.below(n);
    let t = (i + 1 + rng.below(n - 1)) % n;
    let tag = idx % 83;
    match rng.below(3) {
      0 => {
        mods[i].text.push_str(&format!("export * as nsc{} from \"./m{}.ts\";\n", tag, t));
        mods[t].text.push_str(&format!("export * as nsc{} from \"./m{}.ts\";\n", tag, i));
        mods[i].own.push(format!("nsc{}", tag));
        mods[t].own.push(format!("nsc{}", tag));
      }
      1 => {
        mods[i].text.push_str(&format!("export {{ dc{} as dd{} }} from \"./m{}.ts\";\n", tag, tag, t));
        mods[t].text.push_str(&format!("export {{ dd{} as dc{} }} from \"./m{}.ts\";\n", tag, tag, i));
        mods[i].own.push(format!("dd{}", tag));
        mods[t].own.push(format!("dc{}", tag));
      }
      _ => {
        mods[i].text.push_str(&format!("import {{ ie{} }} from \"./m{}.ts\";\nexport {{ ie{} }};\n", tag, t, tag));
        mods[t].text.push_str(&format!("import {{ ie{} }} from \"./m{}.ts\";\nexport {{ ie{} }};\n", tag, i, tag));
        mods[i].own.push(format!("ie{}", tag));
        mods[t].own.push(format!("ie{}", tag));
      }
    }
  }
  // a JSON module whose text begins and ends with white space
  if rng.chance(1, 3) {
    let n = mods.len();
    let i = rng.below(n);
    let lead = ["", "\n", "\n\n   ", " \t"][rng.below(4)];
    let trail = ["", "\n", "  "][rng.below(3)];
    mods[i].text.push_str(&format!("import data{} from \"./d{}.json\" with {{ type: \"json\" }};\nexport const viaJson{} = data{};\n", idx % 89, idx % 89, idx % 89, idx % 89));
    mods[i].own.push(format!("viaJson{}", idx % 89));
    mods.push(SymMod { url: format!("file:///d{}.json", idx % 89), text: format!("{}{{ \"k\": [1, 2], \"s\": \"v\" }}{}", lead, trail), own: vec!["default".into()], stars: vec![], ambient: vec![] });
  }
  SymWorld { mods, alias_cycle }
}

fn build(w: &SymWorld, analyzer: &CapturingModuleAnalyzer) -> ModuleGraph {
  let sources: Vec<(String, Source<String, String>)> = w
    .mods
    .iter()
    .map(|m| (m.url.clone(), Source::Module { specifier: m.url.clone(), maybe_headers: None, content: m.text.clone() }))
    .collect();
  let loader = MemoryLoader::new(sources, vec![]);
  let mut graph = ModuleGraph::new(GraphKind::All);
  let roots: Vec<ModuleSpecifier> = w.mods.iter().map(|m| ModuleSpecifier::parse(&m.url).unwrap()).collect();
  crate::build::block_on(graph.build(
    roots,
    vec![],
    &loader,
    BuildOptions { module_analyzer: analyzer, executor: &crate::world::InlineExecutor, ..Default::default() },
  ));
  graph
}

fn tree_checks(module: ModuleInfoRef, out: &mut Vec<(String, String)>) {
  let text_len = module.text().len();
  let root = module.module_symbol();
  if root.parent_id().is_some() {
    out.push(("module-symbol-has-parent".into(), format!("{}", module.specifier())));
  }
  let ids: HashSet<SymbolId> = module.symbols().map(|s| s.symbol_id()).collect();
  for symbol in module.symbols() {
    let name = symbol.maybe_name();
    for d in symbol.decls() {
      if d.maybe_name() != name {
        out.push(("decl-name-differs-from-symbol-name".into(), format!("{}: symbol {:?} named {:?} has a declaration named {:?}", module.specifier(), symbol.symbol_id(), name, d.maybe_name())));
      }
      let r = d.range.as_byte_range(module.text_info().range().start);
      if r.start > r.end || r.end > text_len {
        out.push(("decl-range-outside-module-text".into(), format!("{}: {:?} {:?}", module.specifier(), symbol.symbol_id(), r)));
      }
    }
    for (n, id) in symbol.exports() {
      if !ids.contains(id) {
        out.push(("dangling-export-id".into(), format!("{}: export {} of {:?} -> {:?}", module.specifier(), n, symbol.symbol_id(), id)));
      }
    }
    for id in symbol.child_ids().chain(symbol.members().iter().copied()) {
      if !ids.contains(&id) {
        out.push(("dangling-child-or-member-id".into(), format!("{}: {:?} -> {:?}", module.specifier(), symbol.symbol_id(), id)));
      }
    }
    if symbol.symbol_id() != root.symbol_id() {
      match symbol.parent_id() {
        None => out.push(("non-root-symbol-without-parent".into(), format!("{}: {:?} {:?}", module.specifier(), symbol.symbol_id(), name))),
        Some(pid) => {
          let Some(parent) = module.symbol(pid) else {
            out.push(("dangling-parent-id".into(), format!("{}: {:?}", module.specifier(), symbol.symbol_id())));
            continue;
          };
          let as_child = parent.child_ids().filter(|id| *id == symbol.symbol_id()).count();
          let as_member = parent.members().iter().filter(|id| **id == symbol.symbol_id()).count();
          // symbols that only stand for a reference (an export specifier, an import, an alias
          // target) are not declarations of their parent's scope: the repository's own checker
          // (tests/helpers) requires them to be neither child nor member
          let is_definition = symbol.decls().iter().all(|d| d.kind.is_definition());
          if is_definition {
            if as_child + as_member != 1 {
              out.push(("symbol-not-reachable-from-parent-exactly-once".into(), format!("{}: {:?} {:?}: {} times a child, {} times a member of {:?}", module.specifier(), symbol.symbol_id(), name, as_child, as_member, pid)));
            }
          } else if as_child + as_member != 0 {
            out.push(("reference-symbol-listed-as-child-or-member".into(), format!("{}: {:?} {:?}", module.specifier(), symbol.symbol_id(), name)));
          }
        }
      }
    }
  }
  // from the module symbol everything is reached at most once
  fn walk(module: ModuleInfoRef, s: &Symbol, seen: &mut HashSet<SymbolId>, out: &mut Vec<(String, String)>, depth: usize) {
    if depth > 2000 {
      out.push(("symbol-tree-too-deep-or-cyclic".into(), format!("{}", module.specifier())));
      return;
    }
    if !seen.insert(s.symbol_id()) {
      out.push(("symbol-reached-through-two-paths".into(), format!("{}: {:?}", module.specifier(), s.symbol_id())));
      return;
    }
    for id in s.child_ids().chain(s.members().iter().copied()) {
      if let Some(c) = module.symbol(id) {
        walk(module, c, seen, out, depth + 1);
      }
    }
  }
  walk(module, root, &mut HashSet::new(), out, 0);
  // walking up always reaches the module symbol
  for symbol in module.symbols() {
    let mut cur = symbol;
    let mut steps = 0;
    while let Some(p) = cur.parent_id() {
      match module.symbol(p) {
        Some(ps) => cur = ps,
        None => break,
      }
      steps += 1;
      if steps > 2000 {
        out.push(("parent-chain-does-not-end".into(), format!("{}: {:?}", module.specifier(), symbol.symbol_id())));
        break;
      }
    }
    if steps <= 2000 && cur.symbol_id() != root.symbol_id() {
      out.push(("parent-chain-does-not-reach-module".into(), format!("{}: {:?}", module.specifier(), symbol.symbol_id())));
    }
  }
}

/// child process: analyse one world, print one JSON object
pub fn child(seed: u64, idx: usize, corpus_file: Option<&str>) {
  crate::build::quiet_panics();
  let (w, mut out_fail, mut reqs, mut imps, mut counts): (SymWorld, Vec<(String, String)>, Vec<String>, Vec<String>, Vec<(String, u64)>) = match corpus_file {
    None => {
      let mut rng = Rng::new(seed ^ 0xC16).fork_n(idx as u64);
      (gen_sym_world(&mut rng, idx), vec![], vec![], vec![], vec![])
    }
    Some(f) => {
      // a spec file: every `# name` section that is a module becomes a module of the world
      let text = std::fs::read_to_string(f).unwrap_or_default();
      let mut mods = vec![];
      let mut name: Option<String> = None;
      let mut body = String::new();
      for line in text.lines() {
        if let Some(h) = line.strip_prefix("# ") {
          if let Some(n) = name.take() {
            mods.push((n, std::mem::take(&mut body)));
          }
          name = Some(h.trim().to_string());
        } else if name.is_some() {
          body.push_str(line);
          body.push('\n');
        }
      }
      if let Some(n) = name.take() {
        mods.push((n, body));
      }
      let mods: Vec<SymMod> = mods
        .into_iter()
        .filter(|(n, _)| n.ends_with(".ts") || n.ends_with(".tsx") || n.ends_with(".js") || n.ends_with(".mts") || n.ends_with(".d.ts"))
        .map(|(n, t)| SymMod { url: if n.contains("://") { n } else { format!("file:///{}", n.trim_start_matches('/')) }, text: t, own: vec![], stars: vec![], ambient: vec![] })
        .collect();
      (SymWorld { mods, alias_cycle: false }, vec![], vec![], vec![], vec![])
    }
  };
  let generated = corpus_file.is_none();
  if std::env::var("DGH_DUMP_WORLD").is_ok() {
    for m in &w.mods {
      eprintln!("# {}\n{}", m.url, m.text);
    }
  }
  let analyzer = CapturingModuleAnalyzer::default();
  let graph = build(&w, &analyzer);
  let root = RootSymbol::new(&graph, &analyzer);
  let mut names: Vec<String> = vec!["default".to_string()];
  let mut intern = |n: &str| -> usize {
    if let Some(i) = names.iter().position(|x| x == n) {
      i
    } else {
      names.push(n.to_string());
      names.len() - 1
    }
  };
  let mut symbols_seen = 0u64;
  let mut defs = 0u64;
  let mut unresolved = 0u64;
  let mut goto_compared = 0u64;
  let mut goto_via_star = 0u64;
  for (mi, m) in w.mods.iter().enumerate() {
    let Ok(spec) = ModuleSpecifier::parse(&m.url) else { continue };
    let Some(module) = root.module_from_specifier(&spec) else { continue };
    tree_checks(module, &mut out_fail);
    if generated {
      // own exports against the generator's ground truth
      let got: Vec<String> = module.module_symbol().exports().keys().cloned().collect();
      let g: BTreeSet<&String> = got.iter().collect();
      let wv: BTreeSet<&String> = m.own.iter().collect();
      if g != wv {
        out_fail.push(("own-exports-differ-from-source".into(), format!("{}: table {:?}, source declares {:?}\n{}", m.url, got, m.own, m.text)));
      }
      // exports of ambient namespaces, at every depth, against the generator's ground truth
      for (path, want) in &m.ambient {
        let mut sym = Some(module.module_symbol());
        for seg in path {
          sym = sym.and_then(|s| s.exports().get(seg)).and_then(|id| module.symbol(*id));
        }
        let got: BTreeSet<String> = sym.map(|s| s.exports().keys().cloned().collect()).unwrap_or_default();
        let want: BTreeSet<String> = want.iter().cloned().collect();
        if got != want {
          out_fail.push(("ambient-namespace-exports-differ-from-source".into(), format!("{}: namespace {} exports {:?}, the source declares {:?}", m.url, path.join("."), got, want)));
        }
      }
      // resolved exports against the model
      let mods_sexp: Vec<String> = w
        .mods
        .iter()
        .map(|mm| {
          format!(
            "((own {}) (stars {}))",
            mm.own.iter().map(|n| intern(n).to_string()).collect::<Vec<_>>().join(" "),
            mm.stars.iter().map(|s| s.map(|t| t.to_string()).unwrap_or("-".into())).collect::<Vec<_>>().join(" ")
          )
        })
        .collect();
      let ex = module.exports(&root);
      let mut toks: Vec<String> = ex
        .resolved
        .iter()
        .map(|(n, item)| {
          let holder = item.as_resolved_export().module.specifier().to_string();
          let hi = w.mods.iter().position(|x| x.url == holder).map(|x| x.to_string()).unwrap_or("?".into());
          format!("{}@{}", intern(n), hi)
        })
        .collect();
      toks.sort();
      reqs.push(format!("(sym-exports (mods {}) {})", mods_sexp.join(" "), mi));
      imps.push(toks.join(" "));
      // ES rule as a least fixpoint, independent of the traversal order: a module exports its own
      // names and every non-default name of the modules it star-re-exports
      {
        let n = w.mods.len();
        let mut sets: Vec<BTreeSet<String>> = w.mods.iter().map(|mm| mm.own.iter().cloned().collect()).collect();
        loop {
          let mut changed = false;
          for a in 0..n {
            for t in w.mods[a].stars.iter().flatten() {
              let add: Vec<String> = sets[*t].iter().filter(|x| x.as_str() != "default" && !sets[a].contains(*x)).cloned().collect();
              if !add.is_empty() {
                changed = true;
                sets[a].extend(add);
              }
            }
          }
          if !changed {
            break;
          }
        }
        let got: BTreeSet<String> = ex.resolved.keys().cloned().collect();
        if got != sets[mi] {
          out_fail.push((
            "resolved-exports-differ-from-es-rule".into(),
            format!("{}: resolved {:?}, the star re-export rule gives {:?}", m.url, got, sets[mi]),
          ));
        }
      }
      let unresolved_stars = ex.unresolved_specifiers.len();
      let expect_unres = reach_unresolved(&w, mi);
      if unresolved_stars != expect_unres {
        out_fail.push(("unresolved-star-specifiers-wrong".into(), format!("{}: {} reported, {} star re-exports without a target are reachable", m.url, unresolved_stars, expect_unres)));
      }
    }
    // go-to-definition from every symbol
    for symbol in module.symbols() {
      symbols_seen += 1;
      let mut got: Vec<String> = vec![];
      for d in root.go_to_definitions_or_unresolveds(module, symbol) {
        match &d {
          DefinitionOrUnresolved::Definition(def) => {
            defs += 1;
            // a definition is self-consistent: the symbol is a symbol of the module it is reported in,
            // the declaration is one of that symbol's and its range lies inside that module's text
            let same_symbol = def.module.symbol(def.symbol.symbol_id()).map(|x| std::ptr::eq(x, def.symbol)).unwrap_or(false);
            let own_decl = def.symbol.decls().iter().any(|x| std::ptr::eq(x, def.symbol_decl));
            let tr = def.module.text_info().range();
            let inside = def.range().start >= tr.start && def.range().end <= tr.end;
            if def.symbol.module_id() != def.module.module_id() || !same_symbol || !own_decl || !inside {
              out_fail.push((
                "definition-not-self-consistent".into(),
                format!("{}: go-to-definition from symbol {:?} reports a definition in {} whose symbol/declaration/range does not belong to that module (same symbol {}, own declaration {}, range inside text {})", m.url, symbol.symbol_id(), def.module.specifier(), same_symbol, own_decl, inside),
              ));
            }
          }
          DefinitionOrUnresolved::Unresolved(_) => unresolved += 1,
        }
        got.push(def_token(&d));
      }
      // a binding that names an export of another module leads where that module's export leads
      if let [decl] = symbol.decls() {
        if let SymbolDeclKind::FileRef(dep) = &decl.kind {
          if let FileDepName::Name(x) = &dep.name {
            if let Some(ts) = graph.resolve_dependency(&dep.specifier, module.specifier(), true) {
              if let Some(tm) = root.module_from_specifier(ts) {
                let ex = tm.exports(&root);
                if let Some(e) = ex.resolved.get(x).map(|i| i.as_resolved_export()) {
                  let mut want: Vec<String> = root.go_to_definitions_or_unresolveds(e.module, e.symbol()).map(|d| def_token(&d)).collect();
                  want.sort();
                  got.sort();
                  goto_compared += 1;
                  if e.module.specifier() != ts {
                    goto_via_star += 1;
                  }
                  if got != want {
                    out_fail.push((
                      "go-to-definition-differs-from-resolved-export".into(),
                      format!("{}: the binding of `{}` from {:?} leads to {:?}; the export `{}` of {} resolves to a symbol of {} whose definitions are {:?}\n{}", m.url, x, dep.specifier, got, x, ts, e.module.specifier(), want, m.text),
                    ));
                  }
                }
              }
            }
          }
        }
      }
    }
  }
  counts.push(("symbols".into(), symbols_seen));
  counts.push(("definitions".into(), defs));
  counts.push(("unresolved".into(), unresolved));
  counts.push(("goto_compared_with_resolved_export".into(), goto_compared));
  counts.push(("goto_through_star_reexport".into(), goto_via_star));
  let o = json!({
    "failures": out_fail.iter().map(|(s, w)| json!({"shape": s, "what": w})).collect::<Vec<_>>(),
    "reqs": reqs, "imps": imps,
    "counts": counts.iter().map(|(k, v)| json!([k, v])).collect::<Vec<_>>(),
    "alias_cycle": w.alias_cycle,
    "modules": w.mods.len(),
  });
  println!("{}", o);
}

/// number of unresolvable star re-exports met by the traversal from module `m` (each module once)
fn def_token(d: &DefinitionOrUnresolved) -> String {
  match d {
    DefinitionOrUnresolved::Definition(def) => {
      let start = def.module.text_info().range().start;
      let r = def.range().as_byte_range(start);
      format!("def {} {}..{}", def.module.specifier(), r.start, r.end)
    }
    DefinitionOrUnresolved::Unresolved(u) => format!("unresolved {} {:?} {:?}", u.module.specifier(), u.kind, u.parts),
  }
}

fn reach_unresolved(w: &SymWorld, m: usize) -> usize {
  let mut seen = HashSet::new();
  fn go(w: &SymWorld, m: usize, seen: &mut HashSet<usize>) -> usize {
    if !seen.insert(m) {
      return 0;
    }
    let mut n = 0;
    for s in &w.mods[m].stars {
      match s {
        None => n += 1,
        Some(t) => n += go(w, *t, seen),
      }
    }
    n
  }
  go(w, m, &mut seen)
}

pub fn run(tier: &str, seed: u64) -> Report {
  let mut report = Report::new("C16");
  report.rule = "generated multi-module TypeScript programs (2-5 modules; every declaration kind incl. overloads, declaration merging, \
    namespaces with nested namespaces and import aliases, class static/instance/private/accessor members, expando properties, destructured \
    exports, default exports of four shapes, import/export aliases, named and namespace re-exports, star re-exports with cycles and missing \
    targets), each analysed in a child process: the module symbol's own exports against the generator's ground truth; the resolved export set \
    of every module against the Lean model of exports_and_re_exports (names and holding module); symbol-table tree checks (root without \
    parent, every declaring symbol exactly once a child or a member of its parent and not both, reference symbols neither, all ids exist, \
    declaration names equal the symbol's, declaration ranges inside the text, walking up reaches the module, walking down meets nothing twice); \
    go_to_definitions_or_unresolveds from every symbol must return (a crash or timeout of the child is a failure); the same tree and \
    go-to-definition checks on every spec file under tests/specs/symbols and tests/specs/graph; non-trivial = distinct (modules, #stars, \
    #unresolved, cycle) classes"
    .into();
  let exe = std::env::current_exe().unwrap();
  let mut batch = Batch::new();
  batch.descs.push(json!({"part": "exports"}));
  let n = if tier == "thorough" { 4000 } else { 500 };
  let run_child = |args: &[String]| -> Result<serde_json::Value, String> {
    let mut child = std::process::Command::new(&exe)
      .args(args)
      .stdout(std::process::Stdio::piped())
      .stderr(std::process::Stdio::null())
      .spawn()
      .map_err(|e| e.to_string())?;
    // a child that does not return burns processor time: 20 s of its own CPU time is the limit (wall
    // time would make the verdict depend on how busy the machine is); 15 min of wall time as a backstop
    let start = std::time::Instant::now();
    let pid = child.id();
    let cpu_seconds = || -> f64 {
      std::fs::read_to_string(format!("/proc/{}/stat", pid))
        .ok()
        .and_then(|t| {
          // fields after the parenthesised command name: utime and stime are the 12th and 13th
          let rest = t.rsplit_once(") ")?.1.to_string();
          let f: Vec<&str> = rest.split(' ').collect();
          let ut: f64 = f.get(11)?.parse().ok()?;
          let st: f64 = f.get(12)?.parse().ok()?;
          Some((ut + st) / 100.0)
        })
        .unwrap_or(0.0)
    };
    loop {
      match child.try_wait() {
        Ok(Some(_)) => break,
        Ok(None) => {
          if cpu_seconds() > 20.0 || start.elapsed().as_secs() > 900 {
            let _ = child.kill();
            return Err("timeout".into());
          }
          std::thread::sleep(std::time::Duration::from_millis(2));
        }
        Err(e) => return Err(e.to_string()),
      }
    }
    let out = child.wait_with_output().map_err(|e| e.to_string())?;
    if !out.status.success() {
      return Err(format!("child ended with {:?}", out.status));
    }
    serde_json::from_slice(&out.stdout).map_err(|e| format!("bad child output: {}", e))
  };
  let mut absorb = |v: serde_json::Value, report: &mut Report, batch: &mut Batch, desc: serde_json::Value| {
    for f in v["failures"].as_array().unwrap() {
      report.fail("oracle", f["shape"].as_str().unwrap(), f["what"].as_str().unwrap().chars().take(1500).collect(), desc.clone());
    }
    let reqs = v["reqs"].as_array().unwrap();
    let imps = v["imps"].as_array().unwrap();
    batch.descs.push(desc);
    for (r, i) in reqs.iter().zip(imps.iter()) {
      batch.push(r.as_str().unwrap().to_string(), i.as_str().unwrap().to_string(), true);
      report.evaluations += 1;
    }
    for c in v["counts"].as_array().unwrap() {
      report.count_n(&format!("total:{}", c[0].as_str().unwrap()), c[1].as_u64().unwrap());
    }
  };
  for i in 0..n {
    report.evaluations += 1;
    let mut rng = Rng::new(seed ^ 0xC16).fork_n(i as u64);
    let w = gen_sym_world(&mut rng, i);
    let desc = json!({"world_index": i, "seed": seed, "modules": w.mods.iter().map(|m| json!({"url": m.url, "text": m.text})).collect::<Vec<_>>()});
    let stars: usize = w.mods.iter().map(|m| m.stars.len()).sum();
    let unres: usize = w.mods.iter().map(|m| m.stars.iter().filter(|s| s.is_none()).count()).sum();
    report.nontrivial.insert(format!("m{}/s{}/u{}/c{}", w.mods.len(), stars.min(6), unres.min(3), w.alias_cycle as u8));
    match run_child(&["c16-child".to_string(), seed.to_string(), i.to_string()]) {
      Ok(v) => absorb(v, &mut report, &mut batch, desc),
      Err(e) => {
        let shape = if w.alias_cycle { "go-to-definition-overflows-on-mutually-recursive-import-aliases" } else { "symbol-analysis-crashed-or-timed-out" };
        report.fail("oracle", shape, format!("world {}: {}", i, e), desc);
      }
    }
    if i < 2 {
      report.sample(json!({"modules": w.mods.iter().map(|m| json!({"url": m.url, "text": m.text, "own": m.own})).collect::<Vec<_>>()}));
    }
  }
  // corpus
  let mut files = vec![];
  for dir in ["/repo/tests/specs/symbols", "/repo/tests/specs/graph"] {
    let mut stack = vec![std::path::PathBuf::from(dir)];
    while let Some(d) = stack.pop() {
      let Ok(rd) = std::fs::read_dir(&d) else { continue };
      for e in rd.flatten() {
        let p = e.path();
        if p.is_dir() {
          stack.push(p);
        } else if p.extension().map(|x| x == "txt").unwrap_or(false) {
          files.push(p);
        }
      }
    }
  }
  files.sort();
  let step = if tier == "thorough" { 1 } else { 2 };
  let mut done = 0;
  for (k, f) in files.iter().enumerate() {
    if k % step != 0 && !f.to_string_lossy().contains("/symbols/") {
      continue;
    }
    report.evaluations += 1;
    done += 1;
    let desc = json!({"spec_file": f.to_string_lossy()});
    match run_child(&["c16-child".to_string(), seed.to_string(), "0".to_string(), f.to_string_lossy().to_string()]) {
      Ok(v) => absorb(v, &mut report, &mut batch, desc),
      Err(e) => report.fail("oracle", "symbol-analysis-crashed-or-timed-out", format!("{}: {}", f.display(), e), desc),
    }
  }
  report.count_n("corpus-spec-files", done);
  batch.finish(&mut report, "C16");
  report
}
