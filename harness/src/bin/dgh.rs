use dgh::report::Report;
use std::io::Write;

fn usage() -> ! {
  eprintln!("usage: dgh run <property> [--tier quick|thorough] [--seed N] [--out file]");
  std::process::exit(2)
}

fn main() {
  let args: Vec<String> = std::env::args().collect();
  if args.len() < 2 {
    usage();
  }
  match args[1].as_str() {
    "run" => {
      if args.len() < 3 {
        usage();
      }
      let prop = args[2].clone();
      let mut tier = "quick".to_string();
      let mut seed: u64 = 1;
      let mut out: Option<String> = None;
      let mut i = 3;
      while i < args.len() {
        match args[i].as_str() {
          "--tier" => {
            tier = args[i + 1].clone();
            i += 2;
          }
          "--seed" => {
            seed = args[i + 1].parse().unwrap_or(1);
            i += 2;
          }
          "--out" => {
            out = Some(args[i + 1].clone());
            i += 2;
          }
          _ => usage(),
        }
      }
      let start = std::time::Instant::now();
      dgh::watchdog::start(&prop, out.clone(), std::time::Duration::from_secs(30));
      let report: Report = match prop.as_str() {
        "C14" => dgh::c14::run(&tier, seed),
        "C15" => dgh::walkprops::run_c15(&tier, seed),
        "C06" => dgh::c06::run(&tier, seed),
        "C20" => dgh::c20::run(&tier, seed),
        "C01" => dgh::c01::run(&tier, seed),
        "C03" => dgh::c03::run(&tier, seed),
        "C04" => dgh::c04::run(&tier, seed),
        "C17" => dgh::c17::run(&tier, seed),
        "C18" => dgh::c18::run(&tier, seed),
        "C19" => dgh::c19::run(&tier, seed),
        "C05" => dgh::c05::run(&tier, seed),
        "C02" => dgh::walkprops::run_c02(&tier, seed),
        "C07" => dgh::c07::run(&tier, seed),
        "C13" => dgh::c13::run(&tier, seed),
        "C08" => dgh::c08::run(&tier, seed),
        "C16" => dgh::c16::run(&tier, seed),
        "C10" => dgh::c10::run(&tier, seed),
        "C09" => dgh::c09::run_c09(&tier, seed),
        "C11" => dgh::c09::run_c11(&tier, seed),
        "C12" => dgh::c12::run(&tier, seed),
        _ => {
          eprintln!("unknown property {}", prop);
          std::process::exit(2)
        }
      };
      let mut v = report.to_json();
      v["wall_s"] = serde_json::json!(start.elapsed().as_secs_f64());
      v["tier"] = serde_json::json!(tier);
      v["seed"] = serde_json::json!(seed);
      let text = serde_json::to_string_pretty(&v).unwrap();
      match out {
        Some(p) => std::fs::File::create(p).unwrap().write_all(text.as_bytes()).unwrap(),
        None => println!("{}", text),
      }
    }
    "fc-run" => {
      dgh::fc::cli(&args[2]);
    }
    "c16-child" => {
      let seed: u64 = args[2].parse().unwrap();
      let idx: usize = args[3].parse().unwrap();
      dgh::c16::child(seed, idx, args.get(4).map(|s| s.as_str()));
    }
    "translate" => {
      let mut repo = "/repo".to_string();
      let mut out = "/verif/lean/DG/Tables.lean".to_string();
      let mut i = 2;
      while i + 1 < args.len() {
        match args[i].as_str() {
          "--repo" => repo = args[i + 1].clone(),
          "--out" => out = args[i + 1].clone(),
          _ => usage(),
        }
        i += 2;
      }
      match dgh::translate::run(&repo, &out) {
        Ok(changed) => println!("tables {}", if changed { "regenerated (changed)" } else { "unchanged" }),
        Err(e) => {
          println!("table translation failed: {}", e);
          std::process::exit(1);
        }
      }
    }
    _ => usage(),
  }
}
