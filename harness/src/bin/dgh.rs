fn main() { println!("ok"); }
