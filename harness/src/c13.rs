//! C13 — module information survives serialisation; the manifest shortcut equals parsing.
use crate::registry::*;
use crate::report::*;
use crate::rng::Rng;
use crate::walkprops::Batch;
use crate::world::Broken;
use crate::world::Form;
use crate::world::Item;
use deno_graph::ModuleSpecifier;
use deno_graph::PositionRange;
use deno_graph::analysis::*;
use serde_json::Value;
use serde_json::json;
use std::collections::HashMap;
use std::sync::Arc;

/// JSON -> protocol s-expression (None when a string falls outside the protocol's alphabet)
pub fn json_sexp(v: &Value) -> Option<String> {
  fn ok(s: &str) -> bool {
    !s.chars().any(|c| c.is_whitespace() || c == '(' || c == ')' || c == '"' || c == '\\' || (c as u32) < 0x20)
  }
  Some(match v {
    Value::Null => "null".into(),
    Value::Bool(true) => "t".into(),
    Value::Bool(false) => "f".into(),
    Value::Number(n) => format!("n:{}", n.as_u64()?),
    Value::String(s) => {
      if !ok(s) {
        return None;
      }
      format!("s:{}", s)
    }
    Value::Array(a) => format!("(a {})", a.iter().map(json_sexp).collect::<Option<Vec<_>>>()?.join(" ")),
    Value::Object(o) => {
      let mut parts = vec![];
      for (k, v) in o {
        if !ok(k) {
          return None;
        }
        parts.push(format!("(s:{} {})", k, json_sexp(v)?));
      }
      format!("(o {})", parts.join(" "))
    }
  })
}

/// canonical text: keys sorted, no spaces (the model prints the same way)
pub fn canon(v: &Value) -> String {
  match v {
    Value::Null => "null".into(),
    Value::Bool(b) => b.to_string(),
    Value::Number(n) => n.to_string(),
    Value::String(s) => format!("\"{}\"", s),
    Value::Array(a) => format!("[{}]", a.iter().map(canon).collect::<Vec<_>>().join(",")),
    Value::Object(o) => {
      let mut kv: Vec<(&String, &Value)> = o.iter().collect();
      kv.sort_by(|a, b| a.0.cmp(b.0));
      format!("{{{}}}", kv.iter().map(|(k, v)| format!("\"{}\":{}", k, canon(v))).collect::<Vec<_>>().join(","))
    }
  }
}

fn word(rng: &mut Rng) -> String {
  const W: &[&str] = &["./a.ts", "./b/c.d.ts", "./caf\u{e9}.ts", "npm:chalk@5", "jsr:@std/path@^1", "https://x.test/m.js", "", "node:fs", "../up.tsx", "@scope/pkg", "x"];
  W[rng.below(W.len())].to_string()
}

fn range(rng: &mut Rng) -> PositionRange {
  let l = rng.below(4);
  let c = rng.below(30);
  PositionRange { start: deno_graph::Position::new(l, c), end: deno_graph::Position::new(l + rng.below(2), c + rng.below(20)) }
}

fn spec_range(rng: &mut Rng) -> SpecifierWithRange {
  SpecifierWithRange { text: word(rng), range: range(rng) }
}

fn attrs(rng: &mut Rng) -> ImportAttributes {
  match rng.below(5) {
    0 | 1 => ImportAttributes::None,
    2 => ImportAttributes::Unknown,
    _ => {
      let mut m = HashMap::new();
      let n = rng.below(3);
      for i in 0..n {
        let k = ["type", "integrity", "x"][i].to_string();
        m.insert(k, if rng.chance(1, 3) { ImportAttribute::Unknown } else { ImportAttribute::Known(["json", "text", "bytes", ""][rng.below(4)].to_string()) });
      }
      ImportAttributes::Known(m)
    }
  }
}

pub fn gen_info(rng: &mut Rng) -> ModuleInfo {
  let mut info = ModuleInfo::default();
  info.is_script = rng.chance(1, 4);
  let nd = rng.below(4);
  for _ in 0..nd {
    if rng.chance(1, 2) {
      const K: &[StaticDependencyKind] = &[
        StaticDependencyKind::Import,
        StaticDependencyKind::ImportDefer,
        StaticDependencyKind::ImportSource,
        StaticDependencyKind::ImportType,
        StaticDependencyKind::ImportEquals,
        StaticDependencyKind::Export,
        StaticDependencyKind::ExportType,
        StaticDependencyKind::ExportEquals,
        StaticDependencyKind::MaybeTsModuleAugmentation,
      ];
      info.dependencies.push(DependencyDescriptor::Static(StaticDependencyDescriptor {
        kind: K[rng.below(K.len())],
        types_specifier: rng.chance(1, 3).then(|| spec_range(rng)),
        specifier: word(rng),
        specifier_range: range(rng),
        is_side_effect: rng.chance(1, 3),
        import_attributes: attrs(rng),
      }));
    } else {
      const K: &[DynamicDependencyKind] =
        &[DynamicDependencyKind::Import, DynamicDependencyKind::ImportDefer, DynamicDependencyKind::ImportSource, DynamicDependencyKind::Require];
      let argument = match rng.below(4) {
        0 => DynamicArgument::Expr,
        1 => DynamicArgument::String(word(rng)),
        2 => DynamicArgument::Template(vec![]),
        _ => DynamicArgument::Template(
          (0..1 + rng.below(3)).map(|_| if rng.chance(1, 2) { DynamicTemplatePart::Expr } else { DynamicTemplatePart::String { value: word(rng) } }).collect(),
        ),
      };
      info.dependencies.push(DependencyDescriptor::Dynamic(DynamicDependencyDescriptor {
        kind: K[rng.below(K.len())],
        types_specifier: rng.chance(1, 4).then(|| spec_range(rng)),
        argument,
        argument_range: range(rng),
        import_attributes: attrs(rng),
      }));
    }
  }
  for _ in 0..rng.below(3) {
    let mode = match rng.below(3) {
      0 => None,
      1 => Some(TypeScriptTypesResolutionMode::Import),
      _ => Some(TypeScriptTypesResolutionMode::Require),
    };
    info.ts_references.push(if rng.chance(1, 2) {
      TypeScriptReference::Path(spec_range(rng))
    } else {
      TypeScriptReference::Types { specifier: spec_range(rng), resolution_mode: mode }
    });
  }
  if rng.chance(1, 4) {
    info.self_types_specifier = Some(spec_range(rng));
  }
  if rng.chance(1, 4) {
    info.jsx_import_source = Some(spec_range(rng));
  }
  if rng.chance(1, 5) {
    info.jsx_import_source_types = Some(spec_range(rng));
  }
  for _ in 0..rng.below(2) {
    info.jsdoc_imports.push(JsDocImportInfo {
      specifier: spec_range(rng),
      resolution_mode: match rng.below(3) {
        0 => None,
        1 => Some(TypeScriptTypesResolutionMode::Import),
        _ => Some(TypeScriptTypesResolutionMode::Require),
      },
    });
  }
  if rng.chance(1, 5) {
    info.source_map_url = Some(spec_range(rng));
  }
  info
}

/// variations of a serialised form that a reader may meet: object-form ranges, explicit defaults,
/// nulls, unknown fields, and malformed values
fn mutate(rng: &mut Rng, v: &Value) -> Value {
  fn walk(rng: &mut Rng, v: &Value, key: Option<&str>) -> Value {
    match v {
      Value::Array(a) => {
        let is_range = a.len() == 2 && a.iter().all(|p| p.as_array().map(|q| q.len() == 2 && q.iter().all(|n| n.is_u64())).unwrap_or(false));
        if is_range {
          return match rng.below(8) {
            0 => json!({"start": {"line": a[0][0], "character": a[0][1]}, "end": {"line": a[1][0], "character": a[1][1]}}),
            1 => json!({"start": [a[0][0], a[0][1]], "end": {"line": a[1][0], "character": a[1][1]}}),
            2 => json!({"end": {"line": a[1][0], "character": a[1][1]}}),
            3 => json!([a[0]]),
            4 => json!([]),
            5 => json!([[a[0][0]], a[1]]),
            6 => json!("range"),
            _ => v.clone(),
          };
        }
        Value::Array(a.iter().map(|x| walk(rng, x, None)).collect())
      }
      Value::Object(o) => {
        let mut out = serde_json::Map::new();
        for (k, x) in o {
          match rng.below(40) {
            0 => continue, // drop the field
            1 => {
              out.insert(k.clone(), Value::Null);
              continue;
            }
            2 => {
              out.insert(k.clone(), json!(7));
              continue;
            }
            _ => {}
          }
          out.insert(k.clone(), walk(rng, x, Some(k)));
        }
        if rng.chance(1, 10) {
          out.insert("unknownField".into(), json!({"a": [1, 2]}));
        }
        if o.get("type").and_then(|t| t.as_str()) == Some("dynamic") && !o.contains_key("kind") && rng.chance(1, 3) {
          out.insert("kind".into(), json!("import"));
        }
        if o.contains_key("specifierRange") && !o.contains_key("importAttributes") && rng.chance(1, 4) {
          out.insert("importAttributes".into(), json!("none"));
        }
        if o.contains_key("argumentRange") && !o.contains_key("argument") && rng.chance(1, 3) {
          out.insert("argument".into(), Value::Null);
        }
        Value::Object(out)
      }
      Value::String(s) if key == Some("kind") && rng.chance(1, 12) => json!(format!("{}x", s)),
      other => other.clone(),
    }
  }
  walk(rng, v, None)
}

fn push_roundtrip(batch: &mut Batch, report: &mut Report, v: &Value, class: &str) {
  let Some(sx) = json_sexp(v) else {
    report.count("skipped:outside-protocol-alphabet");
    return;
  };
  let imp = match serde_json::from_value::<ModuleInfo>(v.clone()) {
    Ok(m) => canon(&serde_json::to_value(&m).unwrap()),
    Err(_) => "none".into(),
  };
  report.count(&format!("{}:{}", class, if imp == "none" { "rejected" } else { "accepted" }));
  batch.push(format!("(mi-roundtrip {})", sx), imp, false);
  report.evaluations += 1;
}

fn check_roundtrip(report: &mut Report, info: &ModuleInfo, origin: &str) -> Value {
  let v = serde_json::to_value(info).unwrap();
  match serde_json::from_value::<ModuleInfo>(v.clone()) {
    Ok(back) if back == *info => {}
    Ok(back) => report.fail(
      "oracle",
      "module-info-round-trip-differs",
      format!("{}: read back differs\n  written: {}\n  original: {:?}\n  read:     {:?}", origin, v, info, back),
      json!({"json": v}),
    ),
    Err(e) => report.fail("oracle", "module-info-not-readable", format!("{}: {} for {}", origin, e, v), json!({"json": v})),
  }
  // via text as the registry publishes it
  let text = serde_json::to_string(info).unwrap();
  match serde_json::from_str::<ModuleInfo>(&text) {
    Ok(back) if back == *info => {}
    _ => report.fail("oracle", "module-info-round-trip-differs", format!("{}: text form does not read back: {}", origin, text), json!({"json": text})),
  }
  v
}

fn class_of(info: &ModuleInfo) -> String {
  format!(
    "d{}s{}r{}j{}o{}",
    info.dependencies.len().min(3),
    info.is_script as u8,
    info.ts_references.len().min(2),
    info.jsdoc_imports.len().min(1),
    [&info.self_types_specifier, &info.jsx_import_source, &info.jsx_import_source_types, &info.source_map_url].iter().filter(|x| x.is_some()).count()
  )
}

pub fn all_forms_items(rng: &mut Rng, typed: bool, jsx: bool) -> Vec<Item> {
  let mut items = vec![];
  let n = 1 + rng.below(6);
  for _ in 0..n {
    let text = word(rng);
    let text = if text.is_empty() { "./e.ts".to_string() } else { text };
    let form = match rng.below(16) {
      0 => Form::SideEffect,
      1 => Form::Namespace,
      2 => Form::ExportAll,
      3 if typed => Form::ImportType,
      4 if typed => Form::ExportType,
      5 => Form::Dynamic,
      6 => Form::RefPath,
      7 => Form::RefTypes,
      8 => match rng.below(3) {
        0 => Form::TsTypes("./types.d.ts".into()),
        1 => Form::DenoTypes(if rng.chance(1, 3) { "./typ\u{e9}s\u{1F600}.d.ts".into() } else { "./types.d.ts".into() }),
        _ => Form::DenoTypesBare(if rng.chance(1, 3) { "./typ\u{e9}s.d.ts".into() } else { "./types.d.ts".into() }),
      },
      9 if !typed => Form::SelfTypes,
      10 if !typed => Form::JsDoc,
      11 => Form::With("json".into()),
      12 => Form::DynamicWith("json".into()),
      13 if typed => Form::ImportEquals,
      14 => Form::SourceMap,
      15 if jsx => Form::JsxImportSource,
      _ => Form::Namespace,
    };
    items.push(Item { form, text });
  }
  items
}

/// module sources embedded in the repository's spec corpus: `# <name>` headers followed by content
pub fn corpus_sources() -> Vec<(String, String)> {
  let mut out = vec![];
  let mut stack = vec![std::path::PathBuf::from("/repo/tests/specs")];
  while let Some(d) = stack.pop() {
    let Ok(rd) = std::fs::read_dir(&d) else { continue };
    for e in rd.flatten() {
      let p = e.path();
      if p.is_dir() {
        stack.push(p);
      } else if p.extension().map(|x| x == "txt").unwrap_or(false) {
        let Ok(text) = std::fs::read_to_string(&p) else { continue };
        let mut name: Option<String> = None;
        let mut body = String::new();
        for line in text.lines() {
          if let Some(h) = line.strip_prefix("# ") {
            if let Some(n) = name.take() {
              out.push((n, std::mem::take(&mut body)));
            }
            body.clear();
            name = Some(h.trim().to_string());
          } else if name.is_some() {
            body.push_str(line);
            body.push('\n');
          }
        }
        if let Some(n) = name.take() {
          out.push((n, body));
        }
      }
    }
  }
  out.sort();
  out
}

fn analyze_source(name: &str, text: &str) -> Option<ModuleInfo> {
  let url = if name.contains("://") { name.to_string() } else { format!("file:///{}", name.trim_start_matches('/')) };
  let spec = ModuleSpecifier::parse(&url).ok()?;
  let mt = deno_graph::MediaType::from_specifier(&spec);
  use deno_graph::MediaType::*;
  if !matches!(mt, JavaScript | Mjs | Cjs | Jsx | TypeScript | Mts | Cts | Dts | Dmts | Dcts | Tsx) {
    return None;
  }
  deno_graph::ast::ParserModuleAnalyzer::default().analyze_sync(&spec, Arc::from(text), mt).ok()
}

pub fn run(tier: &str, seed: u64) -> Report {
  let mut report = Report::new("C13");
  report.rule = "(1) round trip of analysis::ModuleInfo through serde_json (value and text) for generated values covering every field and \
    enum variant (empty / non-empty lists, default / non-default kinds, every attribute and argument form), for the analyser's output on \
    generated sources over every dependency-bearing form, and on every module source embedded in tests/specs; each written form and \
    mutated forms (object-form ranges, dropped / null / mistyped fields, explicit defaults, unknown fields) read by both the model and serde: \
    acceptance and the value read must agree; (2) moduleGraph1 -> 2 upgrade keeps @ts-types/@deno-types (JsrPackageVersionInfo::module_info \
    on the older rendering equals the original information; range arithmetic against the model); (3) generated registry worlds published \
    with embedded module information none / moduleGraph2 / moduleGraph1, cache cold or warm: the serialised graphs must be identical; \
    non-trivial = distinct shape classes of module information, acceptance classes, registry variants"
    .into();
  crate::build::quiet_panics();
  let mut rng = Rng::new(seed ^ 0xC13);
  let mut batch = Batch::new();
  batch.descs.push(json!({"part": "codec"}));
  // (1a) generated values
  let n = if tier == "thorough" { 20000 } else { 2500 };
  for i in 0..n {
    let info = gen_info(&mut rng);
    let v = check_roundtrip(&mut report, &info, "generated value");
    report.nontrivial.insert(format!("gen/{}", class_of(&info)));
    push_roundtrip(&mut batch, &mut report, &v, "written");
    // (2b) the older rendering of a generated value: every dependency that had a types specifier —
    // static or dynamic import — has it again after the upgrade (its text; the range depends on
    // where the comment stood), everything else is unchanged
    {
      let v1 = to_module_graph_1_with(&v, false);
      let has_types = info.dependencies.iter().any(|d| match d {
        DependencyDescriptor::Static(s) => s.types_specifier.is_some(),
        DependencyDescriptor::Dynamic(d) => d.types_specifier.is_some(),
      });
      let texts_ok = info.dependencies.iter().all(|d| match d {
        DependencyDescriptor::Static(s) => s.types_specifier.as_ref().map(|t| !t.text.is_empty() && !t.text.contains('"')).unwrap_or(true),
        DependencyDescriptor::Dynamic(d) => d.types_specifier.as_ref().map(|t| !t.text.is_empty() && !t.text.contains('"')).unwrap_or(true),
      });
      if has_types && texts_ok {
        if let Ok(vi) = serde_json::from_value::<deno_graph::packages::JsrPackageVersionInfo>(json!({"exports": {}, "manifest": {}, "moduleGraph1": {"/m.ts": v1}})) {
          report.evaluations += 1;
          report.count("moduleGraph1-upgrades-of-generated-values");
          let strip = |mi: &ModuleInfo| -> ModuleInfo {
            let mut m = mi.clone();
            for d in m.dependencies.iter_mut() {
              let ts = match d {
                DependencyDescriptor::Static(s) => &mut s.types_specifier,
                DependencyDescriptor::Dynamic(d) => &mut d.types_specifier,
              };
              if let Some(t) = ts {
                t.range = PositionRange { start: deno_graph::Position::new(0, 0), end: deno_graph::Position::new(0, 0) };
              }
            }
            m
          };
          match vi.module_info("/m.ts") {
            Some(up) if strip(&up) == strip(&info) => {}
            other => report.fail(
              "oracle",
              "module-graph-1-upgrade-loses-information",
              format!("moduleGraph1 {} upgraded to {:?}, original {:?}", v1, other.map(|m| strip(&m)), strip(&info)),
              json!({"v1": v1}),
            ),
          }
        }
      }
    }
    for _ in 0..2 {
      let m = mutate(&mut rng, &v);
      push_roundtrip(&mut batch, &mut report, &m, "mutated");
    }
    if i < 2 {
      report.sample(json!({"module_info": v}));
    }
  }
  // (1b) the analyser's output on generated sources
  let n = if tier == "thorough" { 6000 } else { 800 };
  let exts = ["ts", "js", "tsx", "jsx", "mts", "d.ts", "mjs"];
  for i in 0..n {
    let ext = exts[i % exts.len()];
    let typed = crate::world::is_typed_ext(ext);
    let items = all_forms_items(&mut rng, typed, matches!(ext, "tsx" | "jsx"));
    let bytes = crate::world::render(ext, &items, &Broken::No);
    let text = String::from_utf8(bytes).unwrap();
    let Some(info) = analyze_source(&format!("m{}.{}", i, ext), &text) else {
      report.count("generated-source-not-analysable");
      continue;
    };
    let v = check_roundtrip(&mut report, &info, "analysed generated source");
    report.nontrivial.insert(format!("src/{}/{}", ext, class_of(&info)));
    push_roundtrip(&mut batch, &mut report, &v, "analysed");
    // (2) the older rendering is upgraded without losing the types specifier
    // (only the older pragma can appear in the older format)
    let bare = items.iter().any(|i| matches!(i.form, Form::DenoTypesBare(_)));
    let quoted = items.iter().any(|i| matches!(i.form, Form::DenoTypes(_)));
    let newer = items.iter().any(|i| matches!(i.form, Form::TsTypes(_)));
    let v1 = to_module_graph_1_with(&v, bare);
    if v1 != v && !newer && !(bare && quoted) {
      let vi: deno_graph::packages::JsrPackageVersionInfo =
        serde_json::from_value(json!({"exports": {}, "manifest": {}, "moduleGraph1": {"/m.ts": v1}})).unwrap();
      report.evaluations += 1;
      report.count("moduleGraph1-upgrades");
      match vi.module_info("/m.ts") {
        Some(up) if up == info => {}
        other => report.fail(
          "oracle",
          "module-graph-1-upgrade-loses-information",
          format!("moduleGraph1 {} upgraded to {:?}, original {:?}", v1, other, info),
          json!({"v1": v1}),
        ),
      }
      // range arithmetic against the model
      for d in &info.dependencies {
        if let DependencyDescriptor::Static(s) = d {
          if let Some(ts) = &s.types_specifier {
            let comment = if bare { format!(" @deno-types={}", ts.text) } else { format!(" @deno-types=\"{}\"", ts.text) };
            if let Some(m) = find_deno_types(&comment) {
              let lo = comment[..m.range.start].chars().count();
              let hi = comment[..m.range.end].chars().count();
              batch.push(
                format!("(mi-upgrade {} {} {} 0 {})", lo, hi, ts.range.start.line, m.is_quoteless as u8),
                format!("{}:{}-{}:{}", ts.range.start.line, ts.range.start.character, ts.range.end.line, ts.range.end.character),
                false,
              );
              report.evaluations += 1;
            }
          }
        }
      }
    }
  }
  // (1c) corpus
  let corpus = corpus_sources();
  let mut analysed = 0;
  for (name, text) in &corpus {
    if let Some(info) = analyze_source(name, text) {
      analysed += 1;
      let v = check_roundtrip(&mut report, &info, &format!("corpus source {}", name));
      report.nontrivial.insert(format!("corpus/{}", class_of(&info)));
      push_roundtrip(&mut batch, &mut report, &v, "corpus");
    }
  }
  report.count_n("corpus-sources-analysed", analysed);
  report.exhaustive.push(format!("every analysable module source embedded in tests/specs ({} of {} sections)", analysed, corpus.len()));
  // embedded module information found in the corpus' version manifests is read by both sides too
  for (name, text) in &corpus {
    if !name.ends_with("_meta.json") {
      continue;
    }
    let Ok(v) = serde_json::from_str::<Value>(text) else { continue };
    for key in ["moduleGraph2", "moduleGraph1"] {
      if let Some(o) = v.get(key).and_then(|m| m.as_object()) {
        for (_, mi) in o {
          push_roundtrip(&mut batch, &mut report, mi, "corpus-manifest");
        }
      }
    }
  }

  // (3) manifest shortcut equals parsing
  let n = if tier == "thorough" { 1500 } else { 220 };
  for i in 0..n {
    let mut wr = rng.fork();
    let cfg = RegCfg { faults: false, ..Default::default() };
    let mut base = gen_reg_world(&mut wr, &cfg);
    // (manifest bytes differ between the renderings, so checksums of manifests are left out here)
    base.has_locker = false;
    base.lock_manifests.clear();
    // one source text for all renderings: the older pragma, which every format can describe - or, every
    // third world, the newer one, which only the newer format can (the older format is left out then,
    // but a manifest that carries both forms must still be read through the newer one)
    let keep_ts_types = i % 3 == 1;
    for p in base.pkgs.iter_mut().filter(|_| !keep_ts_types) {
      for v in p.versions.iter_mut() {
        for f in v.files.iter_mut() {
          for it in f.items.iter_mut() {
            if let Form::TsTypes(t) = &it.form {
              it.form = if i % 5 == 4 { Form::DenoTypesBare(t.clone()) } else { Form::DenoTypes(t.clone()) };
            }
          }
        }
      }
    }
    let mut reference: Option<(String, String)> = None;
    let renderings: &[MgKind] = if keep_ts_types { &[MgKind::None, MgKind::V2, MgKind::Both] } else { &[MgKind::None, MgKind::V2, MgKind::V1, MgKind::Both] };
    for mg in renderings.iter().copied() {
      for cache in ["as-generated", "cold", "warm"] {
        let mut w = base.clone();
        for p in w.pkgs.iter_mut() {
          for v in p.versions.iter_mut() {
            v.mg = mg;
          }
        }
        // keep the version-manifest cache state (it can steer prefer-cached selection); vary file content only
        match cache {
          "cold" => w.cached.retain(|u| u.ends_with("meta.json")),
          "warm" => {
            let all: Vec<String> = w.served().keys().filter(|u| u.starts_with(REG) && !u.ends_with("meta.json")).cloned().collect();
            w.cached.extend(all);
          }
          _ => {}
        }
        let loader = RegLoader::new(&w);
        report.evaluations += 1;
        let Ok(b) = build_reg(&w, &loader) else {
          report.fail("oracle", "registry-build-failed", format!("mg {:?} cache {}", mg, cache), w.describe());
          continue;
        };
        let mut js = serde_json::to_string(&b.graph).unwrap();
        // what the JSON form leaves out: the declarations derived from a WebAssembly module
        for m in b.graph.modules() {
          if let deno_graph::Module::Wasm(wm) = m {
            js.push_str(&format!("\nwasm-declarations {} {:?} bytes={}", wm.specifier, wm.source_dts, wm.source.len()));
            report.count("registry-wasm-modules-compared");
          }
        }
        let errs = b.graph.module_errors().map(|e| e.to_string_with_range()).collect::<Vec<_>>().join(" | ");
        report.nontrivial.insert(format!("registry/{:?}/{}", mg, cache));
        let used_info = b.log.iter().any(|c| c.cache_setting == "only" && !c.specifier.ends_with("meta.json"));
        if used_info {
          report.count("builds-that-probed-for-embedded-info");
        }
        match &reference {
          None => reference = Some((js, errs)),
          Some((j0, e0)) => {
            if *j0 != js || *e0 != errs {
              report.fail(
                "oracle",
                "graph-from-embedded-module-info-differs",
                format!("world {}: embedded info {:?}, cache {}: graph differs from the one built by parsing\n  parsing:  {}\n  this run: {}", i, mg, cache, first_diff(j0, &js), first_diff(&js, j0)),
                w.describe(),
              );
            }
          }
        }
      }
    }
  }
  batch.finish(&mut report, "C13");
  report
}

fn first_diff(a: &str, b: &str) -> String {
  let i = a.bytes().zip(b.bytes()).position(|(x, y)| x != y).unwrap_or(a.len().min(b.len()));
  let s = i.saturating_sub(80);
  let e = (i + 160).min(a.len());
  let mut s2 = s;
  while !a.is_char_boundary(s2) {
    s2 -= 1;
  }
  let mut e2 = e;
  while !a.is_char_boundary(e2) {
    e2 += 1;
  }
  a[s2..e2].to_string()
}
