use std::collections::HashMap;

/// String interner: the model only ever sees small naturals.
#[derive(Default, Clone, Debug)]
pub struct Interner {
  map: HashMap<String, usize>,
  pub list: Vec<String>,
}

impl Interner {
  pub fn id(&mut self, s: &str) -> usize {
    if let Some(i) = self.map.get(s) {
      return *i;
    }
    let i = self.list.len();
    self.map.insert(s.to_string(), i);
    self.list.push(s.to_string());
    i
  }
  pub fn get(&self, s: &str) -> Option<usize> {
    self.map.get(s).copied()
  }
  pub fn name(&self, i: usize) -> &str {
    &self.list[i]
  }
  pub fn len(&self) -> usize {
    self.list.len()
  }
}
