//! C19 — incremental builds and reloads converge to the from-scratch graph.
use crate::absworld::*;
use crate::build::*;
use crate::c01::MODEL_FUEL;
use crate::c01::same_attribute_proviso;
use crate::c01::world_cfg;
use crate::dump::Ctx;
use crate::report::*;
use crate::rng::Rng;
use crate::walkprops::Batch;
use crate::world::*;
use deno_graph::ModuleGraph;
use deno_graph::ModuleSpecifier;
use serde_json::json;
use std::collections::BTreeMap;
use std::collections::BTreeSet;

/// per-entry observation with names (not interned ids): kind, dependencies with both sides
fn entries(g: &ModuleGraph) -> BTreeMap<String, String> {
  let mut out = BTreeMap::new();
  for (k, slot, _) in g.verif_slots() {
    let v = match slot {
      None => "pending".to_string(),
      Some(Err(e)) => format!("error:{}", err_kind(e).0),
      Some(Ok(m)) => {
        let mut s = serde_json::to_value(m).unwrap();
        // sizes and cache info are irrelevant; keep kind, media type, dependencies
        if let Some(o) = s.as_object_mut() {
          o.remove("size");
        }
        s.to_string()
      }
    };
    out.insert(k.to_string(), v);
  }
  out
}

fn try_reload(w: &World, loader: &ScriptedLoader, mut graph: ModuleGraph, specs: Vec<ModuleSpecifier>) -> Result<ModuleGraph, BuildFailure> {
  crate::watchdog::enter(w.describe());
  let r = std::panic::catch_unwind(std::panic::AssertUnwindSafe(|| {
    block_on(graph.reload(specs, loader, build_options(w, None)));
    graph
  }));
  crate::watchdog::leave();
  r.map_err(|e| {
    let m = panic_message(e);
    if m.contains(NONTERMINATION_MARKER) { BuildFailure::NonTermination } else { BuildFailure::Panic(m) }
  })
}

fn triggers(w: &World, graphs: &[&ModuleGraph]) -> Vec<&'static str> {
  let has_item = |f: &dyn Fn(&Form) -> bool| w.resp.iter().any(|r| matches!(r, Resp::Module { items, .. } if items.iter().any(|it| f(&it.form))));
  let mut t = vec![];
  if !w.imports.is_empty() {
    t.push("configured-imports");
  }
  if w.opts.is_dynamic {
    t.push("dynamic-root-build");
  }
  let cycle = (0..w.specs.len()).any(|i| {
    let mut cur = i;
    for _ in 0..40 {
      match &w.resp[cur] {
        Resp::Redirect(t) => cur = *t,
        _ => return false,
      }
    }
    true
  });
  if cycle || crate::world::redirect_budget_exceedable(w) {
    t.push("too-many-redirects-entry-depends-on-entry-point");
  }
  let asset_forms = has_item(&|f| match f {
    Form::SourcePhase | Form::SourceMap => true,
    Form::With(a) | Form::DynamicWith(a) => matches!(a.as_str(), "text" | "bytes" | "css"),
    _ => false,
  });
  let cls = graphs.iter().any(|g| {
    g.module_errors().any(|e| matches!(err_kind(e).0.as_str(), "sourcePhase" | "unsupportedAttr" | "unsupportedMedia" | "invalidTypeAssertion"))
  });
  // a root of unknown / JSON media type is treated differently from the same specifier as a dependency
  let root_only = w.roots.iter().any(|r| {
    let e = ext_of(&w.specs[*r]);
    e.is_empty() || e == "txt" || e == "json" || e == "css"
  });
  if asset_forms || cls || root_only {
    t.push("slot-classification-depends-on-first-edge");
  }
  t
}

/// successive builds with an npm resolver: `npm:` roots and modules importing `npm:` specifiers added
/// by a further build end up as in one build of all the roots
fn npm_incremental_part(report: &mut Report, rng: &mut Rng, n: usize) {
  use deno_graph::source::MemoryLoader;
  const POOL: &[&str] = &["npm:chalk@5", "npm:chalk@5/sub", "npm:@types/node@^20", "npm:left-pad", "npm:gone@1"];
  for i in 0..n {
    let mut loader = MemoryLoader::default();
    let mut roots: Vec<ModuleSpecifier> = vec![];
    let mut texts = vec![];
    for k in 0..2 + rng.below(2) {
      if rng.chance(1, 3) {
        // a root that is an npm specifier itself
        roots.push(ModuleSpecifier::parse(POOL[rng.below(POOL.len())]).unwrap());
        continue;
      }
      let mut t = String::new();
      for j in 0..rng.below(3) {
        t.push_str(&format!("import * as n{} from \"{}\";\n", j, POOL[rng.below(POOL.len())]));
      }
      let u = format!("file:///r{}.ts", k);
      loader.add_source_with_text(&u, &t);
      texts.push((u.clone(), t));
      roots.push(ModuleSpecifier::parse(&u).unwrap());
    }
    roots.dedup();
    let resolver = crate::c01::TableNpmResolver { failing: if i % 2 == 0 { vec!["gone".into()] } else { vec![] } };
    let build = |g: &mut ModuleGraph, rs: Vec<ModuleSpecifier>| {
      crate::build::block_on(g.build(rs, vec![], &loader, deno_graph::BuildOptions { npm_resolver: Some(&resolver), ..Default::default() }));
    };
    let mut at_once = ModuleGraph::new(deno_graph::GraphKind::All);
    build(&mut at_once, roots.clone());
    let cut = 1 + rng.below(roots.len().max(2) - 1).min(roots.len() - 1);
    let mut stepwise = ModuleGraph::new(deno_graph::GraphKind::All);
    build(&mut stepwise, roots[..cut].to_vec());
    build(&mut stepwise, roots[cut..].to_vec());
    report.evaluations += 1;
    let show = |g: &ModuleGraph| -> BTreeMap<String, String> {
      let mut m = BTreeMap::new();
      for (k, s, _) in g.verif_slots() {
        m.insert(k.to_string(), match s { None => "pending".to_string(), Some(Ok(md)) => format!("module {:?}", std::mem::discriminant(md)), Some(Err(e)) => format!("error {}", e.to_string().chars().take(60).collect::<String>()) });
      }
      for (a, b) in &g.redirects {
        m.insert(format!("redirect {}", a), b.to_string());
      }
      m.insert("roots".into(), format!("{:?}", g.roots.iter().map(|r| r.as_str()).collect::<Vec<_>>()));
      m
    };
    let (a, b) = (show(&at_once), show(&stepwise));
    if a != b {
      let mut diffs = vec![];
      for k in a.keys().chain(b.keys()).collect::<BTreeSet<_>>() {
        if a.get(k) != b.get(k) {
          diffs.push(format!("{}: at once {:?}, in two builds {:?}", k, a.get(k), b.get(k)));
        }
      }
      report.fail("oracle", "incremental-build-differs-from-one-build", diffs.join("\n"), json!({"modules": texts, "roots": roots.iter().map(|r| r.as_str()).collect::<Vec<_>>(), "second_build_from_root": cut, "failing_npm_packages": resolver.failing}));
    }
    report.count("npm-resolver:successive-builds");
  }
}

pub fn run(tier: &str, seed: u64) -> Report {
  let mut report = Report::new("C19");
  report.rule = "histories over generated worlds (as C01, 2-4 roots): (a) every ordered split of the root list into 1-3 \
    successive ModuleGraph::build calls, then a repeated build with roots it already has; (b) 1-2 edit+reload steps (an \
    entry's imports regenerated, made missing, turned into a redirect, or restored) reloading the edited specifiers; the \
    Lean model replays the same history (fresh builder per call over the persisted slots/redirects/roots) and must agree \
    after every step (slots, redirects, loader calls); oracle: final graph equals the from-scratch build of all roots on the \
    final sources for everything the scratch build contains, other entries are unchanged, a repeated build makes no loader \
    call; non-trivial = distinct (kind, #roots, split shape, #edits)"
    .into();
  quiet_panics();
  let mut rng = Rng::new(seed ^ 0xC19);
  let n = if tier == "thorough" { 5000 } else { 500 };
  let mut batch = Batch::new();
  for wi in 0..n {
    let mut cfg = world_cfg(wi);
    cfg.min_specs = 4;
    let mut wr = rng.fork();
    let mut w = gen_world(&mut wr, &cfg);
    // 2-4 roots among the universe
    let total = w.specs.len();
    while w.roots.len() < 2 + wi % 3 && w.roots.len() < total {
      let r = rng.below(total);
      if !w.roots.contains(&r) {
        w.roots.push(r);
      }
    }
    let in_scope = !cfg.allow_inconsistent_finals && same_attribute_proviso(&w);
    // splits of the root list
    let k = w.roots.len();
    let mut splits: Vec<Vec<Vec<usize>>> = vec![vec![w.roots.clone()]];
    for cut in 1..k {
      splits.push(vec![w.roots[..cut].to_vec(), w.roots[cut..].to_vec()]);
    }
    if k >= 3 {
      splits.push(vec![w.roots[..1].to_vec(), w.roots[1..2].to_vec(), w.roots[2..].to_vec()]);
      // a different order
      let mut rev = w.roots.clone();
      rev.reverse();
      splits.push(vec![rev[..1].to_vec(), rev[1..].to_vec()]);
    }
    // from scratch
    let scratch_loader = ScriptedLoader::new(&w);
    let Ok(scratch) = try_build_world(&w, &scratch_loader) else { continue };
    let scratch_entries = entries(&scratch);
    for split in &splits {
      let desc = json!({"world": w.describe(), "split": split.iter().map(|p| p.iter().map(|r| w.specs[*r].as_str()).collect::<Vec<_>>()).collect::<Vec<_>>()});
      batch.descs.push(desc.clone());
      batch.push("(hist-start)".into(), "ok".into(), false);
      let mut ctx = Ctx::default();
      let mut graph = ModuleGraph::new(w.kind);
      let mut ok = true;
      for part in split {
        let req = build_request(&mut ctx, &w, part, MODEL_FUEL).replacen("(build ", "(hist-build ", 1);
        let loader = ScriptedLoader::new(&w);
        let roots: Vec<ModuleSpecifier> = part.iter().map(|r| w.specs[*r].clone()).collect();
        match try_build(&w, &loader, graph, roots) {
          Ok(g) => {
            graph = g;
            let log = loader.log.borrow().clone();
            batch.push(req, show_graph(&mut ctx, &graph, &log), false);
          }
          Err(f) => {
            report.fail("oracle", "incremental-build-did-not-finish", format!("{:?}", f), desc.clone());
            graph = ModuleGraph::new(w.kind);
            ok = false;
            break;
          }
        }
        report.evaluations += 1;
      }
      if !ok {
        continue;
      }
      // building again with roots it already has changes nothing and loads nothing
      {
        let before = serde_json::to_string(&graph).unwrap();
        let loader = ScriptedLoader::new(&w);
        let roots: Vec<ModuleSpecifier> = w.roots.iter().map(|r| w.specs[*r].clone()).collect();
        let req = build_request(&mut ctx, &w, &w.roots, MODEL_FUEL).replacen("(build ", "(hist-build ", 1);
        if let Ok(g) = try_build(&w, &loader, graph.clone(), roots) {
          let log = loader.log.borrow().clone();
          batch.push(req, show_graph(&mut ctx, &g, &log), false);
          if serde_json::to_string(&g).unwrap() != before || !log.is_empty() {
            report.fail("oracle", "repeated-build-changes-graph", format!("rebuilding with known roots made {} loader calls / changed the graph", log.len()), desc.clone());
          }
        }
      }
      // the roots are those of building everything at once (as a set: the order follows the calls)
      {
        let a: BTreeSet<String> = graph.roots.iter().map(|r| r.to_string()).collect();
        let b: BTreeSet<String> = scratch.roots.iter().map(|r| r.to_string()).collect();
        if a != b {
          report.fail("oracle", "incremental-roots-differ-from-build-at-once", format!("roots after the successive builds {:?}, after one build {:?}", a, b), desc.clone());
        }
      }
      // same graph as building all roots at once
      if in_scope {
        let got = entries(&graph);
        let same_redirects = graph.redirects == scratch.redirects;
        if got != scratch_entries || !same_redirects {
          let mut diffs = vec![];
          for key in got.keys().chain(scratch_entries.keys()).collect::<BTreeSet<_>>() {
            if got.get(key) != scratch_entries.get(key) {
              diffs.push(format!("{}: incremental {:?} vs at once {:?}", key, got.get(key).map(|s| s.chars().take(120).collect::<String>()), scratch_entries.get(key).map(|s| s.chars().take(120).collect::<String>())));
            }
          }
          if !same_redirects {
            diffs.push(format!("redirects differ: {:?} vs {:?}", graph.redirects, scratch.redirects));
          }
          let t = triggers(&w, &[&graph, &scratch]);
          let confounded = t.iter().any(|x| matches!(*x, "configured-imports" | "dynamic-root-build"));
          match t.len() {
            0 => report.fail("oracle", "incremental-build-differs-from-build-at-once", diffs.join("\n"), desc.clone()),
            1 if !confounded => report.fail("oracle", t[0], diffs.join("\n"), desc.clone()),
            _ => report.count("info:differs-with-several-known-defect-triggers-present (not attributed)"),
          }
        } else {
          report.count("incremental-equals-at-once");
        }
      }
      report.nontrivial.insert(format!("{:?}/r{}/parts{}", w.kind, k, split.len()));
    }
    // ---- edit + reload -----------------------------------------------------------------------
    let edits = 1 + wi % 2;
    let mut cur_world = w.clone();
    let mut ctx = Ctx::default();
    let desc0 = json!({"world": w.describe()});
    batch.descs.push(desc0.clone());
    batch.push("(hist-start)".into(), "ok".into(), false);
    let loader0 = ScriptedLoader::new(&w);
    let req0 = build_request(&mut ctx, &w, &w.roots, MODEL_FUEL).replacen("(build ", "(hist-build ", 1);
    let Ok(mut graph) = try_build_world(&w, &loader0) else { continue };
    batch.push(req0, show_graph(&mut ctx, &graph, &loader0.log.borrow()), false);
    for e in 0..edits {
      // pick entries that are in the graph and are modules / errors keyed by a universe specifier
      let candidates: Vec<usize> = (0..cur_world.specs.len()).filter(|i| graph.try_get(&cur_world.specs[*i]).map(|m| m.is_some()).unwrap_or(true) && !graph.redirects.contains_key(&cur_world.specs[*i])).collect();
      if candidates.is_empty() {
        break;
      }
      let before = entries(&graph);
      let mut edited: Vec<usize> = vec![];
      let mut new_world = cur_world.clone();
      for _ in 0..(1 + rng.below(2)) {
        let i = *rng.pick(&candidates);
        if edited.contains(&i) {
          continue;
        }
        edited.push(i);
        let specs = new_world.specs.clone();
        new_world.resp[i] = match rng.below(4) {
          0 => Resp::Missing,
          1 => {
            let t = rng.below(specs.len());
            if t == i { Resp::Missing } else { Resp::Redirect(t) }
          }
          _ => {
            // regenerate the module's imports
            let mut items = vec![];
            for _ in 0..rng.below(4) {
              let t = rng.below(specs.len());
              let form = if rng.chance(1, 3) { Form::Dynamic } else { Form::Namespace };
              items.push(Item { form, text: import_text(&mut rng, &specs[i], &specs[t]) });
            }
            let ext = ext_of(&specs[i]);
            if is_js_like_ext(&ext) {
              Resp::Module { final_spec: i, headers: None, items, broken: Broken::No, raw: None }
            } else {
              new_world.resp[i].clone()
            }
          }
        };
      }
      if !cfg.allow_inconsistent_finals {
        new_world.make_consistent();
      }
      // a changed source is also named by the redirect sources leading to it: reload through one of
      // them (a several-hop chain head when there is one) every now and then
      let specs_to_reload: Vec<ModuleSpecifier> = edited
        .iter()
        .map(|i| {
          let target = &new_world.specs[*i];
          let mut heads: Vec<&ModuleSpecifier> = graph.redirects.keys().filter(|a| graph.resolve(a) == target).collect();
          heads.sort_by_key(|a| (graph.redirects.get(*a) == Some(target)) as u8);
          if !heads.is_empty() && rng.chance(1, 2) {
            report.count(if graph.redirects.get(heads[0]) == Some(target) { "reload-through-redirect-source:one-hop" } else { "reload-through-redirect-source:several-hops" });
            heads[0].clone()
          } else {
            target.clone()
          }
        })
        .collect();
      let desc = json!({"world_before": cur_world.describe(), "world_after": new_world.describe(), "reload": specs_to_reload.iter().map(|s| s.as_str()).collect::<Vec<_>>(), "edit_step": e});
      batch.descs.push(desc.clone());
      let loader = ScriptedLoader::new(&new_world);
      let ids: Vec<String> = specs_to_reload.iter().map(|s| ctx.spec(s).to_string()).collect();
      let _ = world_sexp(&mut ctx, &new_world, 10, &[]);
      let req = format!("(hist-reload {} {} (specs {}) {})", world_sexp(&mut ctx, &new_world, 10, &[]), opts_sexp(&new_world), ids.join(" "), MODEL_FUEL);
      match try_reload(&new_world, &loader, graph.clone(), specs_to_reload.clone()) {
        Ok(g) => {
          graph = g;
          batch.push(req, show_graph(&mut ctx, &graph, &loader.log.borrow()), false);
        }
        Err(f) => {
          report.fail("oracle", "reload-did-not-finish", format!("{:?}", f), desc.clone());
          break;
        }
      }
      report.evaluations += 1;
      cur_world = new_world;
      // converge to the from-scratch build of the new sources
      let in_scope2 = in_scope && same_attribute_proviso(&cur_world);
      let sl = ScriptedLoader::new(&cur_world);
      if let (true, Ok(scratch2)) = (in_scope2, try_build_world(&cur_world, &sl)) {
        let want = entries(&scratch2);
        let got = entries(&graph);
        let mut diffs = vec![];
        for (k, v) in &want {
          if got.get(k) != Some(v) {
            diffs.push(format!("{}: after reload {:?}, from scratch {:?}", k, got.get(k).map(|s| s.chars().take(120).collect::<String>()), v.chars().take(120).collect::<String>()));
          }
        }
        // the reloaded specifiers are loaded as roots: what only they reach is compared with a
        // from-scratch build that has them as additional roots
        let mut wr = cur_world.clone();
        for i in &edited {
          if !wr.roots.contains(i) {
            wr.roots.push(*i);
          }
        }
        let slr = ScriptedLoader::new(&wr);
        let want_r = try_build_world(&wr, &slr).map(|g| entries(&g)).unwrap_or_default();
        // entries outside the new closure may remain but are never altered
        for (k, v) in &got {
          if !want.contains_key(k) {
            if let Some(r) = want_r.get(k) {
              if r != v {
                diffs.push(format!("{}: reached only from the reloaded specifiers: after reload {:?}, from scratch {:?}", k, v.chars().take(100).collect::<String>(), r.chars().take(100).collect::<String>()));
              }
              continue;
            }
            match before.get(k) {
              Some(b) if b == v => {}
              Some(b) => diffs.push(format!("{}: unreachable entry altered by the reload: {:?} -> {:?}", k, b.chars().take(100).collect::<String>(), v.chars().take(100).collect::<String>())),
              None => diffs.push(format!("{}: entry created by the reload although the new sources do not reach it", k)),
            }
          }
        }
        if !diffs.is_empty() {
          let mut t = triggers(&cur_world, &[&graph, &scratch2]);
          // a reloaded specifier keeps the redirects recorded before the edit
          if !graph.redirects.iter().all(|(a, b)| scratch2.redirects.get(a) == Some(b)) {
            t.push("stale-redirect-kept-after-reload");
          }
          let confounded = t.iter().any(|x| matches!(*x, "configured-imports" | "dynamic-root-build"));
          match t.len() {
            0 => report.fail("oracle", "reload-does-not-converge", diffs.join("\n"), desc.clone()),
            1 if !confounded => report.fail("oracle", t[0], diffs.join("\n"), desc.clone()),
            _ => report.count("info:differs-with-several-known-defect-triggers-present (not attributed)"),
          }
        } else {
          report.count("reload-converges");
        }
      }
      report.nontrivial.insert(format!("{:?}/edit{}", w.kind, e));
    }
  }
  npm_incremental_part(&mut report, &mut rng, if tier == "thorough" { 3000 } else { 300 });
  batch.finish(&mut report, "C19");
  report
}
