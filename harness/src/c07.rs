//! C07 — `jsr:` specifiers map to registry URLs through the manifest, with bookkeeping.
//! (A) component correspondence: export lookup, registry URL <-> name@version;
//! (B) pass correspondence: one `resolve_pending_jsr_specifiers` pass on flat worlds;
//! (C) statement oracles on nested registry worlds (packages importing one another).
use crate::registry::*;
use crate::report::*;
use crate::rng::Rng;
use crate::walkprops::Batch;
use crate::world::Form;
use deno_graph::JsrLoadError;
use deno_graph::Module;
use deno_graph::ModuleErrorKind;
use deno_graph::ModuleGraph;
use deno_graph::ModuleLoadError;
use deno_graph::ModuleSpecifier;
use deno_graph::Resolution;
use deno_graph::source::CacheSetting;
use deno_semver::Version;
use deno_semver::VersionReq;
use deno_semver::jsr::JsrPackageReqReference;
use deno_semver::package::PackageNv;
use serde_json::json;
use std::collections::BTreeMap;
use std::collections::BTreeSet;

pub fn sorted_versions() -> Vec<Version> {
  let mut v: Vec<Version> = VERSIONS.iter().map(|s| Version::parse_standard(s).unwrap()).collect();
  v.sort();
  v
}

pub fn vid(vs: &[Version], v: &Version) -> Option<usize> {
  vs.iter().position(|x| x == v)
}

fn satom(s: &str) -> String {
  format!("s:{}", s)
}

pub fn exports_sexp(e: &ExportsDesc) -> String {
  match e {
    ExportsDesc::Str(s) => format!("(str {})", satom(s)),
    ExportsDesc::Obj(m) => format!(
      "(obj {})",
      m.iter().map(|(k, v)| format!("({} {})", satom(k), v.as_ref().map(|v| satom(v)).unwrap_or("-".into()))).collect::<Vec<_>>().join(" ")
    ),
    ExportsDesc::Other => "other".into(),
  }
}

/// `jsr:` specifier -> (requirement reference) when it gets as far as a pending resolution
pub fn parse_jsr(spec: &ModuleSpecifier) -> Option<JsrPackageReqReference> {
  let r = JsrPackageReqReference::from_specifier(spec).ok()?;
  if r.req().version_req.tag().is_some() {
    return None;
  }
  Some(r)
}

#[derive(Clone, Debug, PartialEq, Eq)]
pub enum MetaView {
  Ok(Vec<(String, bool, Option<i64>)>),
  Nf,
  Le,
  Rd,
}

pub fn pkg_view(loader: &RegLoader, name: &str, cache: CacheSetting) -> MetaView {
  match loader.answer(&meta_url(name), cache) {
    Ans::Bytes(b) => match serde_json::from_slice::<deno_graph::packages::JsrPackageInfo>(&b) {
      Ok(info) => MetaView::Ok(
        info
          .versions
          .iter()
          .map(|(v, i)| (v.to_string(), i.yanked, i.created_at.map(|d| d.timestamp() / 86_400)))
          .collect(),
      ),
      Err(_) => MetaView::Le,
    },
    Ans::Missing | Ans::External => MetaView::Nf,
    Ans::Error => MetaView::Le,
    Ans::Redirect(_) => MetaView::Rd,
  }
}

fn view_sexp(vs: &[Version], v: &MetaView) -> String {
  match v {
    MetaView::Ok(l) => format!(
      "ok {}",
      l.iter()
        .filter_map(|(v, y, c)| {
          let id = vid(vs, &Version::parse_standard(v).ok()?)?;
          Some(format!("({} {} {})", id, *y as u8, c.map(|c| c.to_string()).unwrap_or("-".into())))
        })
        .collect::<Vec<_>>()
        .join(" ")
    ),
    MetaView::Nf => "nf".into(),
    MetaView::Le => "le".into(),
    MetaView::Rd => "rd".into(),
  }
}

pub struct Interner {
  pub names: Vec<String>,
  /// version requirements, interned up to `VersionReq` equality (`@1` and `@^1.0.0` are one key)
  pub reqs: Vec<VersionReq>,
}
impl Interner {
  pub fn name(&mut self, n: &str) -> usize {
    if let Some(i) = self.names.iter().position(|x| x == n) {
      return i;
    }
    self.names.push(n.to_string());
    self.names.len() - 1
  }
  pub fn req(&mut self, r: &VersionReq) -> usize {
    if let Some(i) = self.reqs.iter().position(|x| x == r) {
      return i;
    }
    self.reqs.push(r.clone());
    self.reqs.len() - 1
  }
}

pub fn jsr_err_kind(e: &deno_graph::ModuleError, cutoff: Option<i64>) -> String {
  match e.as_kind() {
    ModuleErrorKind::Load { err: ModuleLoadError::Jsr(j), .. } => match j {
      JsrLoadError::PackageNotFound(_) => "pkg-not-found".into(),
      JsrLoadError::PackageManifestLoad(..) => "pkg-load".into(),
      JsrLoadError::RedirectInPackage(_) => "redirect".into(),
      JsrLoadError::PackageReqNotFound(e) => {
        format!("req-not-found:{}", if e.newest_dependency_date.is_some() { cutoff.map(|c| c.to_string()).unwrap_or("?".into()) } else { "-".into() })
      }
      JsrLoadError::PackageVersionNotFound(_) => "ver-not-found".into(),
      JsrLoadError::PackageVersionManifestLoad(..) | JsrLoadError::PackageVersionManifestChecksumIntegrity(..) => "ver-load".into(),
      JsrLoadError::UnknownExport { exports, .. } => {
        let mut l = exports.clone();
        l.sort();
        format!("unknown-export:[{}]", l.join(","))
      }
      JsrLoadError::PackageFormat(_) => "package-format".into(),
      other => format!("other-jsr:{}", other.to_string().chars().take(40).collect::<String>().replace(' ', "_")),
    },
    _ => format!("other:{}", crate::absworld::err_kind(e).0),
  }
}

fn restarted(w: &RegWorld, b: &Built) -> Option<usize> {
  // a restart loads the root again (module loads keep `Use`; only metadata loads bypass the cache)
  let loads: Vec<usize> = b.log.iter().enumerate().filter(|(_, c)| c.specifier == w.roots[0]).map(|(i, _)| i).collect();
  if loads.len() >= 2 { loads.last().copied() } else { None }
}

/// (B) one flat world: model request(s) and the implementation's answer in the model's format
fn flat_world(rng: &mut Rng, faults: bool, one_package: bool) -> RegWorld {
  let cfg = if one_package {
    // many requirements on one package with many versions: selections interact
    RegCfg { nested: false, faults, n_pkgs: 1, max_versions: 6, ..Default::default() }
  } else {
    RegCfg { nested: false, faults, ..Default::default() }
  };
  let mut w = gen_reg_world(rng, &cfg);
  if one_package {
    w.prefer_cached = rng.chance(3, 4);
    w.user.truncate(1);
    while w.user[0].items.len() < 4 {
      let req = REQS[rng.below(REQS.len())];
      w.user[0].items.push(crate::world::Item { form: Form::Namespace, text: format!("jsr:@s/a{}", req) });
    }
  }
  w.user.truncate(1);
  let names: Vec<String> = w.pkgs.iter().map(|p| p.name.clone()).collect();
  for it in w.user[0].items.iter_mut() {
    if matches!(it.form, Form::Dynamic) {
      it.form = Form::Namespace;
    }
    if !it.text.starts_with("jsr:") {
      it.text = format!("jsr:{}", names[0]);
    }
  }
  w.user[0].items.retain(|i| i.text.starts_with("jsr:"));
  w.passthrough = false;
  // a lockfile's jsr entries: requirements already mapped to versions before the build starts
  if rng.chance(1, 3) {
    let vs = sorted_versions();
    for _ in 0..1 + rng.below(3) {
      let p = &w.pkgs[rng.below(w.pkgs.len())];
      let req = REQS[rng.below(REQS.len())].trim_start_matches('@').to_string();
      let Ok(vr) = deno_semver::VersionReq::parse_from_specifier(&req) else { continue };
      let have: Vec<&Version> = vs.iter().filter(|v| vr.matches(v) && p.versions.iter().any(|pv| pv.version == v.to_string())).collect();
      if have.is_empty() {
        continue;
      }
      let v = have[rng.below(have.len())].to_string();
      if !w.seeds.iter().any(|(n, r, _)| *n == p.name && *r == req) {
        w.seeds.push((p.name.clone(), req, v));
      }
    }
  }
  // file faults are irrelevant here (only metadata is modelled)
  w
}

struct PassCase {
  request: String,
  imp: String,
}

fn pass_case(w: &RegWorld, two_step: bool, report: &mut Report) -> Option<Vec<PassCase>> {
  let vs = sorted_versions();
  let loader = RegLoader::new(w);
  let built = if two_step {
    let mut w2 = w.clone();
    w2.user.push(UserFile { url: "file:///pre.ts".into(), items: vec![] });
    let loader0 = RegLoader::new(&w2);
    let first = try_build_reg(&w2, &loader0, ModuleGraph::new(w.kind), vec!["file:///pre.ts".into()]);
    let g = match first {
      Ok(b) => b.graph,
      Err(_) => return None,
    };
    try_build_reg(w, &loader, g, w.roots.clone())
  } else {
    build_reg(w, &loader)
  };
  let built = match built {
    Ok(b) => b,
    Err(f) => {
      report.fail("oracle", "registry-build-failed", format!("{:?}", f), w.describe());
      return None;
    }
  };
  // the statement's tiers, replayed on this very build (a failing input when the pass model disagrees)
  selection_oracle(w, &built, &loader, report);
  let g = &built.graph;
  let root = ModuleSpecifier::parse(&w.roots[0]).unwrap();
  let Some(Module::Js(js)) = g.get(&root) else { return None };
  // pending items in the order the root's dependencies are visited
  let mut item_specs: Vec<ModuleSpecifier> = vec![];
  for dep in js.dependencies.values() {
    if dep.is_dynamic {
      continue;
    }
    for r in [&dep.maybe_code, &dep.maybe_type] {
      if let Resolution::Ok(res) = r {
        if res.specifier.scheme() == "jsr" && parse_jsr(&res.specifier).is_some() {
          item_specs.push(res.specifier.clone());
        }
      }
    }
  }
  let mut intern = Interner { names: w.pkgs.iter().map(|p| p.name.clone()).collect(), reqs: vec![] };
  let mut spec_ids: Vec<String> = vec![];
  let mut items = vec![];
  for s in &item_specs {
    let r = parse_jsr(s).unwrap();
    let sid = match spec_ids.iter().position(|x| x == s.as_str()) {
      Some(i) => i,
      None => {
        spec_ids.push(s.to_string());
        spec_ids.len() - 1
      }
    };
    let n = intern.name(&r.req().name);
    let q = intern.req(&r.req().version_req);
    items.push(format!("({} {} {} {})", sid, n, q, satom(&r.export_name())));
  }
  let mut seed_sexp: Vec<String> = vec![];
  for (name, req, ver) in &w.seeds {
    let (Ok(vr), Ok(v)) = (VersionReq::parse_from_specifier(req), Version::parse_standard(ver)) else { continue };
    let n = intern.name(name);
    let q = intern.req(&vr);
    if let Some(vi) = vid(&vs, &v) {
      seed_sexp.push(format!("({} {} {})", n, q, vi));
    }
  }
  let restart_at = restarted(w, &built);
  let did_restart = restart_at.is_some();
  if two_step && did_restart {
    report.fail("oracle", "restart-on-non-empty-graph", "a build on a non-empty graph restarted".into(), w.describe());
  }
  let cutoff = |name: &str| -> Option<i64> {
    let d = w.cutoff_day?;
    if w.excl.iter().any(|e| e == name) || w.excl_prefixes.iter().any(|p| name.starts_with(p.as_str())) {
      None
    } else {
      Some(d)
    }
  };
  let mk_request = |mode: &str, intern: &Interner| -> String {
    let ver_cache = if mode == "bust" { CacheSetting::Reload } else { CacheSetting::Use };
    let pkgs: Vec<String> = intern
      .names
      .iter()
      .enumerate()
      .map(|(i, n)| format!("({} {})", i, view_sexp(&vs, &pkg_view(&loader, n, if mode == "bust" { CacheSetting::Reload } else { CacheSetting::Use }))))
      .collect();
    let fresh: Vec<String> =
      intern.names.iter().enumerate().map(|(i, n)| format!("({} {})", i, view_sexp(&vs, &pkg_view(&loader, n, CacheSetting::Reload)))).collect();
    let mut vers = vec![];
    let mut cached = vec![];
    let locker = initial_locker(w);
    for (ni, n) in intern.names.iter().enumerate() {
      let mut c = vec![];
      for (vi, v) in vs.iter().enumerate() {
        let url = ver_meta_url(n, &v.to_string());
        if matches!(loader.answer(&url, CacheSetting::Only), Ans::Bytes(_)) {
          c.push(vi.to_string());
        }
        let r = match loader.answer(&url, ver_cache) {
          Ans::Bytes(b) => {
            let expected = locker.as_ref().and_then(|l| l.manifests.get(&format!("{}@{}", n, v)).cloned());
            let bad_sum = expected.map(|e| e != crate::world::sha256_hex(&b)).unwrap_or(false);
            if bad_sum {
              "le".to_string()
            } else {
              match serde_json::from_slice::<deno_graph::packages::JsrPackageVersionInfo>(&b) {
                Ok(_) => {
                  let (_, rv) = w.find(n, &v.to_string()).unwrap();
                  format!("ok {}", exports_sexp(&rv.exports))
                }
                Err(_) => "le".into(),
              }
            }
          }
          Ans::Missing | Ans::External => "nf".into(),
          Ans::Error => "le".into(),
          Ans::Redirect(_) => "rd".into(),
        };
        if w.find(n, &v.to_string()).is_some() {
          vers.push(format!("({} {} {})", ni, vi, r));
        }
      }
      cached.push(format!("({} {})", ni, c.join(" ")));
    }
    let sats: Vec<String> = intern
      .reqs
      .iter()
      .enumerate()
      .map(|(i, r)| {
        format!("({} {})", i, vs.iter().enumerate().filter(|(_, v)| r.matches(v)).map(|(i, _)| i.to_string()).collect::<Vec<_>>().join(" "))
      })
      .collect();
    let cutoffs: Vec<String> = intern.names.iter().enumerate().filter_map(|(i, n)| cutoff(n).map(|d| format!("({} {})", i, d))).collect();
    let names: Vec<String> = intern.names.iter().enumerate().map(|(i, n)| format!("({} {})", i, satom(n))).collect();
    let vnames: Vec<String> = vs.iter().enumerate().map(|(i, v)| format!("({} {})", i, satom(&v.to_string()))).collect();
    format!(
      "(jsr-pass {} (pkgs {}) (fresh {}) (vers {}) (sats {}) (cutoffs {}) (cached {}) {} {} (names {} {}) (vernames {}) (seed {}) (items {}))",
      mode,
      pkgs.join(" "),
      fresh.join(" "),
      vers.join(" "),
      sats.join(" "),
      cutoffs.join(" "),
      cached.join(" "),
      w.prefer_cached as u8,
      w.kind.include_types() as u8,
      satom(REG),
      names.join(" "),
      vnames.join(" "),
      seed_sexp.join(" "),
      items.join(" ")
    )
  };
  // implementation state in the model's output format
  let nv_str = |nv: &PackageNv, intern: &mut Interner| -> String {
    format!("{}@{}", intern.name(&nv.name), vid(&vs, &nv.version).map(|v| v.to_string()).unwrap_or("?".into()))
  };
  let mut toks: Vec<String> = vec![];
  let mut g2 = built.graph.clone();
  for (sid, s) in spec_ids.iter().enumerate() {
    let spec = ModuleSpecifier::parse(s).unwrap();
    if let Some(t) = g.redirects.get(&spec) {
      toks.push(format!("O{}=>{}", sid, t));
    } else if let Some(e) = g.module_errors().find(|e| e.specifier() == &spec) {
      let name = parse_jsr(&spec).unwrap().req().name.to_string();
      toks.push(format!("O{}=!{}", sid, jsr_err_kind(e, cutoff(&name))));
    } else {
      toks.push(format!("O{}=?", sid));
    }
  }
  for (req, nv) in g.packages.mappings() {
    let n = intern.name(&req.name);
    let q = intern.req(&req.version_req);
    toks.push(format!("M{}.{}={}", n, q, nv_str(nv, &mut intern)));
  }
  for (ni, n) in intern.names.clone().iter().enumerate() {
    if let Some(l) = g.packages.versions_by_name(n) {
      toks.push(format!("N{}=[{}]", ni, l.iter().map(|nv| vid(&vs, &nv.version).unwrap().to_string()).collect::<Vec<_>>().join(",")));
    }
  }
  for (nv, _) in g.packages.packages_with_deps() {
    toks.push(format!("P{}", nv_str(nv, &mut intern)));
    if let Some(ex) = g.packages.package_exports(nv) {
      for (k, v) in ex {
        toks.push(format!("X{}:{}>{}", nv_str(nv, &mut intern), k, v));
      }
    }
  }
  for nv in g2.packages.used_yanked_packages() {
    toks.push(format!("Y{}", nv_str(nv, &mut intern)));
  }
  let from = restart_at.unwrap_or(0);
  for c in built.log.iter().skip(from) {
    if c.cache_setting == "only" && c.specifier.ends_with("_meta.json") {
      // https://jsr.io/@s/a/1.0.0_meta.json
      let rest = c.specifier.strip_prefix(REG).unwrap();
      let (name, file) = rest.rsplit_once('/').unwrap();
      let ver = file.strip_suffix("_meta.json").unwrap();
      toks.push(format!("C{}@{}", intern.name(name), vid(&vs, &Version::parse_standard(ver).unwrap()).unwrap()));
    }
  }
  let mut ei = 0;
  for (at, req, nv) in &built.resolved {
    if *at <= from {
      continue;
    }
    let pr = deno_semver::package::PackageReq::from_str(req).unwrap();
    let pnv = PackageNv::from_str(nv).unwrap();
    let n = intern.name(&pr.name);
    let q = intern.req(&pr.version_req);
    toks.push(format!("E{}:{}.{}={}", ei, n, q, nv_str(&pnv, &mut intern)));
    ei += 1;
  }
  let state = toks.join(" ");
  report.count(if did_restart { "pass:restarted" } else { "pass:no-restart" });
  let mut out = vec![];
  if two_step {
    out.push(PassCase { request: mk_request("norestart", &intern), imp: state });
  } else if did_restart {
    out.push(PassCase { request: mk_request("allow", &intern), imp: "RESTART".into() });
    out.push(PassCase { request: mk_request("bust", &intern), imp: state });
  } else {
    out.push(PassCase { request: mk_request("allow", &intern), imp: state });
  }
  for t in state_classes(&out.last().unwrap().imp) {
    report.nontrivial.insert(format!("pass/{}/{}", if two_step { "norestart" } else if did_restart { "bust" } else { "allow" }, t));
  }
  Some(out)
}

fn state_classes(state: &str) -> Vec<String> {
  let mut c = BTreeSet::new();
  for t in state.split_whitespace() {
    if let Some(rest) = t.strip_prefix('O') {
      if let Some((_, k)) = rest.split_once("=!") {
        c.insert(format!("err:{}", k.split(':').next().unwrap()));
      } else {
        c.insert("redirect".to_string());
      }
    } else if t.starts_with('Y') {
      c.insert("yanked".into());
    } else if t.starts_with('C') {
      c.insert("probe".into());
    }
  }
  c.into_iter().collect()
}

// ---------------------------------------------------------------------------------------------
// (C) statement oracles on nested worlds

fn strip_dot_slash(p: &str) -> &str {
  p.strip_prefix("./").unwrap_or(p)
}

pub fn oracles(w: &RegWorld, built: &Built, loader: &RegLoader, report: &mut Report) {
  let g = &built.graph;
  let vs = sorted_versions();
  let reg = ModuleSpecifier::parse(REG).unwrap();
  let replay = || w.describe();
  // known defect trigger: one requirement resolved more than once, to different versions
  let from0 = restarted(w, built).unwrap_or(0);
  let mut by_req: BTreeMap<String, BTreeSet<String>> = BTreeMap::new();
  for (at, req, nv) in &built.resolved {
    if *at > from0 {
      by_req.entry(req.clone()).or_default().insert(nv.clone());
    }
  }
  let remapped = by_req.values().any(|s| s.len() > 1);
  if remapped {
    report.count("trigger:requirement-resolved-twice-to-different-versions");
  }
  let twice = "requirement-resolved-twice-to-different-versions";
  // O1: redirects of jsr: specifiers are formed from name, selected version and the export's path
  let mut expected_exports: BTreeMap<String, BTreeMap<String, String>> = BTreeMap::new();
  for (s, t) in &g.redirects {
    if s.scheme() != "jsr" {
      continue;
    }
    let Some(r) = parse_jsr(s) else {
      report.fail("oracle", "redirect-for-invalid-jsr-specifier", format!("{} -> {}", s, t), replay());
      continue;
    };
    report.evaluations += 1;
    let Some(nv) = deno_graph::source::recommended_registry_package_url_to_nv(&reg, t) else {
      report.fail("oracle", "jsr-redirect-not-into-registry", format!("{} -> {}", s, t), replay());
      continue;
    };
    if nv.name != r.req().name || !r.req().version_req.matches(&nv.version) {
      report.fail(
        "oracle",
        "jsr-redirect-to-unsatisfying-version",
        format!("{} -> {} (package {} does not satisfy the requirement)", s, t, nv),
        replay(),
      );
      continue;
    }
    let Some((_, rv)) = w.find(&nv.name, &nv.version.to_string()) else {
      report.fail("oracle", "jsr-redirect-to-unknown-version", format!("{} -> {}", s, t), replay());
      continue;
    };
    let export_name = r.export_name().to_string();
    match rv.exports.lookup(&export_name) {
      Some(path) => {
        let want = format!("{}{}", pkg_url(&nv.name, &nv.version.to_string()), strip_dot_slash(path));
        if want != t.as_str() {
          report.fail(
            "oracle",
            "jsr-redirect-not-formed-from-manifest",
            format!("{} -> {} but name/version/export path give {}", s, t, want),
            replay(),
          );
        }
        expected_exports.entry(nv.to_string()).or_default().insert(export_name, path.to_string());
      }
      None => report.fail(
        "oracle",
        "jsr-redirect-for-unknown-export",
        format!("{} -> {} but the manifest has no export {}", s, t, export_name),
        replay(),
      ),
    }
    // the package table maps the requirement to the selected name@version
    match g.packages.mappings().get(r.req()) {
      Some(m) if *m == nv => report.count("mapping:agrees-with-redirect"),
      Some(m) => report.fail(
        "oracle",
        if remapped { twice } else { "requirement-mapped-to-other-version-than-its-redirect" },
        format!("{} redirects into {} but the package table maps {} to {}", s, nv, r.req(), m),
        replay(),
      ),
      None => report.fail("oracle", "requirement-missing-from-package-table", format!("{} -> {}: no mapping for {}", s, t, r.req()), replay()),
    }
  }
  // O2: unknown-export errors list exactly the manifest's exports
  for e in g.module_errors() {
    if let ModuleErrorKind::Load { err: ModuleLoadError::Jsr(JsrLoadError::UnknownExport { nv, export_name, exports }), specifier, .. } = e.as_kind() {
      report.evaluations += 1;
      report.count("unknown-export-errors");
      let Some((_, rv)) = w.find(&nv.name, &nv.version.to_string()) else {
        report.fail("oracle", "unknown-export-for-unknown-version", format!("{} {}", specifier, nv), replay());
        continue;
      };
      let mut want = rv.exports.names();
      want.sort();
      let mut got = exports.clone();
      got.sort();
      if want != got || rv.exports.lookup(export_name).is_some() {
        report.fail(
          "oracle",
          "unknown-export-error-wrong",
          format!("{}: export {} of {}: listed {:?}, manifest has {:?}", specifier, export_name, nv, got, want),
          replay(),
        );
      }
    }
  }
  // O3: every mapping satisfies its requirement
  for (req, nv) in g.packages.mappings() {
    report.evaluations += 1;
    if req.name != nv.name || !req.version_req.matches(&nv.version) {
      report.fail("oracle", "mapping-does-not-satisfy-requirement", format!("{} -> {}", req, nv), replay());
    }
  }
  // O4: exports used
  for (nv, _) in g.packages.packages_with_deps() {
    report.evaluations += 1;
    let got: BTreeMap<String, String> = g.packages.package_exports(nv).cloned().unwrap_or_default();
    let want = expected_exports.get(&nv.to_string()).cloned().unwrap_or_default();
    if got != want {
      report.fail("oracle", if remapped { twice } else { "package-exports-differ-from-exports-used" }, format!("{}: table {:?}, used {:?}", nv, got, want), replay());
    }
    if !got.is_empty() {
      report.nontrivial.insert(format!("exports-used/{}", got.len().min(3)));
    }
  }
  // O5: dependencies recorded per registry package
  let mut want_deps: BTreeMap<String, BTreeSet<String>> = BTreeMap::new();
  for m in g.modules() {
    let Some(nv) = deno_graph::source::recommended_registry_package_url_to_nv(&reg, m.specifier()) else { continue };
    let mut specs: Vec<ModuleSpecifier> = vec![];
    let mut add_deps = |deps: &indexmap::IndexMap<String, deno_graph::Dependency>| {
      for d in deps.values() {
        if d.is_dynamic && w.skip_dynamic_deps {
          continue;
        }
        if w.kind.include_code() || d.maybe_type.is_none() {
          if let Resolution::Ok(r) = &d.maybe_code {
            specs.push(r.specifier.clone());
          }
        }
        if w.kind.include_types() {
          if let Resolution::Ok(r) = &d.maybe_type {
            specs.push(r.specifier.clone());
          }
        }
      }
    };
    match m {
      Module::Js(js) => {
        add_deps(&js.dependencies);
        if w.kind.include_types() {
          if let Some(td) = &js.maybe_types_dependency {
            if let Resolution::Ok(r) = &td.dependency {
              specs.push(r.specifier.clone());
            }
          }
        }
      }
      Module::Wasm(wm) => add_deps(&wm.dependencies),
      _ => {}
    }
    for s in specs {
      let dep = match s.scheme() {
        "jsr" => parse_jsr(&s).map(|r| format!("jsr:{}", r.req())),
        "npm" => deno_semver::npm::NpmPackageReqReference::from_specifier(&s).ok().map(|r| format!("npm:{}", r.req())),
        _ => None,
      };
      if let Some(d) = dep {
        want_deps.entry(nv.to_string()).or_default().insert(d);
      }
    }
  }
  for (nv, deps) in g.packages.packages_with_deps() {
    report.evaluations += 1;
    let got: BTreeSet<String> = deps.map(|d| d.to_string()).collect();
    let want = want_deps.remove(&nv.to_string()).unwrap_or_default();
    // everything the package's sources declare (a module whose content load failed after its
    // embedded module information was used has had its imports followed and recorded)
    let mut declared: BTreeSet<String> = BTreeSet::new();
    if let Some((_, rv)) = w.find(&nv.name, &nv.version.to_string()) {
      for f in &rv.files {
        for it in &f.items {
          let texts: Vec<&str> = match &it.form {
            Form::TsTypes(t) | Form::DenoTypes(t) | Form::DenoTypesBare(t) => vec![it.text.as_str(), t.as_str()],
            _ => vec![it.text.as_str()],
          };
          for t in texts {
            if let Ok(s) = ModuleSpecifier::parse(t) {
              let dep = match s.scheme() {
                "jsr" => parse_jsr(&s).map(|r| format!("jsr:{}", r.req())),
                "npm" => deno_semver::npm::NpmPackageReqReference::from_specifier(&s).ok().map(|r| format!("npm:{}", r.req())),
                _ => None,
              };
              if let Some(d) = dep {
                declared.insert(d);
              }
            }
          }
        }
      }
    }
    // requirements are compared up to `VersionReq` equality (`@1` and `@^1.0.0` are one requirement)
    let same = |a: &str, b: &str| -> bool {
      a == b
        || match (deno_semver::jsr::JsrDepPackageReq::from_str(a), deno_semver::jsr::JsrDepPackageReq::from_str(b)) {
          (Ok(x), Ok(y)) => x == y,
          _ => false,
        }
    };
    let missing: Vec<&String> = want.iter().filter(|d| !got.iter().any(|g| same(g, d))).collect();
    let extra: Vec<&String> = got.iter().filter(|d| !declared.iter().any(|g| same(g, d))).collect();
    if !missing.is_empty() {
      // known defect trigger: the same specifier imported dynamically from several modules
      let mut dyn_importers: BTreeMap<String, BTreeSet<String>> = BTreeMap::new();
      for m in g.modules() {
        if let Module::Js(js) = m {
          for d in js.dependencies.values() {
            if d.is_dynamic {
              for r in [&d.maybe_code, &d.maybe_type] {
                if let Resolution::Ok(r) = r {
                  dyn_importers.entry(r.specifier.to_string()).or_default().insert(m.specifier().to_string());
                }
              }
            }
          }
        }
      }
      let shared_dynamic = missing.iter().all(|d| dyn_importers.iter().any(|(s, ims)| ims.len() > 1 && s.starts_with(d.as_str())));
      report.fail(
        "oracle",
        if shared_dynamic { "dependency-of-second-dynamic-importer-not-recorded" } else { "package-dependency-not-recorded" },
        format!("{}: table {:?}, missing {:?} (imported by its loaded modules)", nv, got, missing),
        replay(),
      );
    }
    if !extra.is_empty() {
      report.fail(
        "oracle",
        "package-dependency-recorded-but-not-declared",
        format!("{}: table {:?}, of which {:?} is declared by none of its files", nv, got, extra),
        replay(),
      );
    }
    if !got.is_empty() {
      report.nontrivial.insert(format!("pkg-deps/{}/{}", got.iter().any(|d| d.starts_with("npm:")) as u8, got.len().min(3)));
    }
  }
  for (nv, deps) in want_deps {
    if !deps.is_empty() {
      report.fail("oracle", "package-missing-from-table", format!("{} has modules importing {:?} but is not in the package table", nv, deps), replay());
    }
  }
  // every registry package a module of which is in the graph has a record, however it was reached
  // (jsr: specifier or https registry URL) and whether or not it imports anything
  {
    let table: BTreeSet<String> = g.packages.packages_with_deps().map(|(nv, _)| nv.to_string()).collect();
    let mut loaded: BTreeSet<String> = BTreeSet::new();
    for m in g.modules() {
      if let Some(nv) = deno_graph::source::recommended_registry_package_url_to_nv(&reg, m.specifier()) {
        loaded.insert(nv.to_string());
      }
    }
    for nv in loaded.difference(&table) {
      report.fail("oracle", "package-with-loaded-modules-missing-from-table", format!("{} has modules in the graph but no record in the package table {:?}", nv, table), replay());
    }
  }
  selection_oracle(w, built, loader, report);
}

/// graph-level version selection, replayed in resolution order (C06 statement) + used yanked packages
pub fn selection_oracle(w: &RegWorld, built: &Built, loader: &RegLoader, report: &mut Report) {
  let g = &built.graph;
  let vs = sorted_versions();
  let replay = || w.describe();
  if w.pkgs.iter().all(|p| p.stale.is_none()) {
    let from = restarted(w, built).unwrap_or(0);
    let mut selected: BTreeMap<String, Vec<Version>> = BTreeMap::new();
    // versions the lockfile seeded the graph with count as selected from the start
    for (name, _, ver) in &w.seeds {
      if let Ok(v) = Version::parse_standard(ver) {
        let e = selected.entry(name.clone()).or_default();
        if !e.contains(&v) {
          e.push(v);
        }
      }
    }
    let mut yanked_used: BTreeSet<String> = BTreeSet::new();
    let cache_view = if restarted(w, built).is_some() { CacheSetting::Reload } else { CacheSetting::Use };
    for (at, req, nv) in &built.resolved {
      if *at <= from {
        continue;
      }
      report.evaluations += 1;
      let pr = deno_semver::package::PackageReq::from_str(req).unwrap();
      let got = PackageNv::from_str(nv).unwrap();
      let MetaView::Ok(infos) = pkg_view(loader, &pr.name, cache_view) else { continue };
      let sat = |v: &Version| pr.version_req.matches(v);
      let cutoff = w.cutoff_day.filter(|_| !(w.excl.iter().any(|e| *e == pr.name.as_str()) || w.excl_prefixes.iter().any(|p| pr.name.starts_with(p.as_str()))));
      let date_ok = |c: Option<i64>| cutoff.map(|d| c.map(|c| c < d).unwrap_or(true)).unwrap_or(true);
      let parsed: Vec<(Version, bool, Option<i64>)> = infos.iter().filter_map(|(v, y, c)| Some((Version::parse_standard(v).ok()?, *y, *c))).collect();
      let existing = selected.get(pr.name.as_str()).cloned().unwrap_or_default();
      let cached: Vec<Version> = if w.prefer_cached {
        parsed.iter().filter(|(v, _, _)| matches!(loader.answer(&ver_meta_url(&pr.name, &v.to_string()), CacheSetting::Only), Ans::Bytes(_))).map(|x| x.0.clone()).collect()
      } else {
        vec![]
      };
      let (want, tier): (Option<(Version, bool)>, &str) = if let Some(v) = existing.iter().filter(|v| sat(v)).max() {
        (Some((v.clone(), parsed.iter().find(|i| i.0 == *v).map(|i| i.1).unwrap_or(false))), "tier1")
      } else if let Some(v) = parsed.iter().filter(|i| !i.1 && cached.contains(&i.0) && sat(&i.0) && date_ok(i.2)).map(|i| i.0.clone()).max() {
        (Some((v, false)), "tier1.5")
      } else if let Some(v) = parsed.iter().filter(|i| !i.1 && sat(&i.0) && date_ok(i.2)).map(|i| i.0.clone()).max() {
        (Some((v, false)), "tier2")
      } else if let Some(v) = parsed.iter().filter(|i| i.1 && sat(&i.0) && date_ok(i.2)).map(|i| i.0.clone()).max() {
        (Some((v, true)), "tier3")
      } else {
        (None, "none")
      };
      report.count(&format!("graph-selection:{}", tier));
      report.nontrivial.insert(format!("graph-selection/{}/{}/{}", tier, w.prefer_cached as u8, cutoff.is_some() as u8));
      match &want {
        Some((v, y)) => {
          if *v != got.version {
            report.fail(
              "oracle",
              "graph-level-wrong-version-selected",
              format!("{} resolved to {} but the statement's tiers give {} ({}; selected so far {:?}, cached {:?}); events {:?}", req, nv, v, tier,
                existing.iter().map(|v| v.to_string()).collect::<Vec<_>>(), cached.iter().map(|v| v.to_string()).collect::<Vec<_>>(), built.resolved),
              replay(),
            );
          }
          if *y {
            yanked_used.insert(format!("{}@{}", pr.name, v));
          }
        }
        None => report.fail("oracle", "graph-level-selection-where-none-qualifies", format!("{} resolved to {}", req, nv), replay()),
      }
      let e = selected.entry(pr.name.to_string()).or_default();
      if !e.contains(&got.version) {
        e.push(got.version.clone());
      }
      let _ = vid(&vs, &got.version);
    }
    let mut g2 = g.clone();
    let got_yanked: BTreeSet<String> = g2.packages.used_yanked_packages().map(|nv| nv.to_string()).collect();
    if got_yanked != yanked_used {
      report.fail("oracle", "used-yanked-packages-wrong", format!("reported {:?}, selections that were yanked {:?}", got_yanked, yanked_used), replay());
    }
  }
}

pub fn url_cases(rng: &mut Rng) -> Vec<String> {
  let mut out = vec![];
  for name in PKG_NAMES {
    for v in VERSIONS.iter().chain(["1.0.0+build", "x", "1.0", "", "01.0.0", "v1.0.0", "=1.0.0", "1.0.0_meta.json"].iter()) {
      for tail in ["", "/", "/mod.ts", "/a/b.ts", "_meta.json", "-beta/mod.ts", "?q=1"] {
        out.push(format!("{}{}/{}{}", REG, name, v, tail));
        if rng.chance(1, 6) {
          out.push(format!("{}/{}/{}{}", REG, name, v, tail));
        }
        if rng.chance(1, 10) {
          out.push(format!("https://jsr.io.evil.test/{}/{}{}", name, v, tail));
          out.push(format!("http://jsr.io/{}/{}{}", name, v, tail));
        }
      }
    }
    out.push(format!("{}{}", REG, name));
    out.push(format!("{}{}/meta.json", REG, name));
  }
  out.push(REG.to_string());
  out.push(format!("{}@s", REG));
  out.push("file:///main.ts".into());
  out.push("https://x.test/@s/a/1.0.0/mod.ts".into());
  out
}

pub fn run(tier: &str, seed: u64) -> Report {
  let mut report = Report::new("C07");
  report.rule = "(A) JsrPackageVersionInfo::export/exports and recommended_registry_package_url(_to_nv) against the model on \
    generated exports values (string / object with non-string values / other) x export names, and on registry-like URLs \
    (every package x version-like third segment x tail, doubled slash, look-alike hosts); (B) one whole \
    resolve_pending_jsr_specifiers pass on flat registry worlds (a root importing jsr: specifiers of 1-3 packages with 1-4 versions, \
    yanked flags, dates, cutoff/exclusions, cached manifests with prefer_cached_jsr_versions, metadata faults, stale cached meta.json, \
    lockfile manifest checksums) in the three fill modes (fresh graph, restart with cache busting, non-empty graph): redirects, error kinds, \
    package table (mappings, versions by name, exports used, yanked), cache-only probes and Reporter::on_resolve events; \
    (C) statement oracles on nested worlds (package modules importing jsr:/npm:/https registry URLs, all graph kinds, embedded module info \
    none/v2/v1, cache states); non-trivial = distinct outcome classes per fill mode, exports-used and package-dependency sizes, selection tiers"
    .into();
  let mut rng = Rng::new(seed ^ 0xC07);
  let mut batch = Batch::new();
  batch.descs.push(json!({"part": "A"}));
  // (A1) exports
  let values: Vec<ExportsDesc> = vec![
    ExportsDesc::Str("./mod.ts".into()),
    ExportsDesc::Str("mod.ts".into()),
    ExportsDesc::Obj(vec![]),
    ExportsDesc::Obj(vec![(".".into(), Some("./mod.ts".into()))]),
    ExportsDesc::Obj(vec![(".".into(), Some("./mod.ts".into())), ("./sub".into(), Some("./sub.ts".into()))]),
    ExportsDesc::Obj(vec![(".".into(), None), ("./sub".into(), Some("./sub.ts".into()))]),
    ExportsDesc::Obj(vec![("./a".into(), Some("./a.ts".into())), ("./b".into(), None), ("./c".into(), Some("./lib/c.ts".into()))]),
    ExportsDesc::Other,
  ];
  for v in &values {
    for name in [".", "./sub", "./a", "./b", "./c", "./nope", "sub", "./"] {
      let info: deno_graph::packages::JsrPackageVersionInfo =
        serde_json::from_value(json!({"exports": v.to_json(), "manifest": {}})).unwrap();
      let got = info.export(name);
      let list: Vec<String> = info.exports().map(|(k, v)| format!("L{}>{}", k, v)).collect();
      let imp = format!("{} {}", got.map(|p| format!("some:{}", p)).unwrap_or("none".into()), list.join(" "));
      // the listing order is the JSON map's: compared as a set
      batch.push(format!("(jsr-export {} {})", exports_sexp(v), satom(name)), imp, true);
      report.evaluations += 1;
      report.nontrivial.insert(format!("export/{}/{}", got.is_some() as u8, list.len().min(3)));
      // oracle
      let want = v.lookup(name);
      if got != want {
        report.fail("oracle", "export-lookup-wrong", format!("{:?} export {} = {:?}, expected {:?}", v, name, got, want), json!({}));
      }
    }
  }
  // (A2) URLs
  let reg = ModuleSpecifier::parse(REG).unwrap();
  for u in url_cases(&mut rng) {
    let Ok(url) = ModuleSpecifier::parse(&u) else { continue };
    let got = deno_graph::source::recommended_registry_package_url_to_nv(&reg, &url);
    // third path segment as the implementation sees it
    let seg = url.as_str().strip_prefix(REG).map(|p| p.strip_prefix('/').unwrap_or(p)).and_then(|p| p.split('/').nth(2).map(|s| s.to_string()));
    // the model's `validVer`: the segment is the normalized text of a version (the parser is loose:
    // `v1.0.0`, `=1.0.0`, `01.0.0` parse, but are not the path segment of any package version — F38)
    let valid = seg.as_ref().filter(|s| Version::parse_standard(s).map(|v| v.to_string() == **s).unwrap_or(false));
    batch.push(
      format!("(jsr-urlnv {} {} (valid {}))", satom(REG), satom(url.as_str()), valid.map(|s| satom(s)).unwrap_or_default()),
      got.as_ref().map(|nv| format!("{} {}", nv.name, seg.clone().unwrap_or_else(|| "<not under the registry URL>".into()))).unwrap_or("none".into()),
      false,
    );
    if let (Some(nv), None) = (&got, &seg) {
      // a URL that does not begin with the registry URL belongs to no registry package
      report.fail("oracle", "url-attributed-to-other-package", format!("{} is not under {} and is attributed to {}", url, REG, nv), json!({"url": u}));
      continue;
    }
    report.evaluations += 1;
    report.nontrivial.insert(format!("urlnv/{}", got.is_some() as u8));
    if let Some(nv) = &got {
      // never attributes a URL to a different package: the URL lies inside that package's directory
      let base = deno_graph::source::recommended_registry_package_url(&reg, nv);
      let b = base.as_str().trim_end_matches('/');
      let inside = url.as_str() == b || url.as_str().starts_with(&format!("{}/", b)) || {
        // tolerated: a doubled slash after the registry URL
        let alt = format!("{}/{}/{}", REG, nv.name, nv.version);
        url.as_str() == alt || url.as_str().starts_with(&format!("{}/", alt))
      };
      // (before the repair of F38 a segment that merely *parses* to the version — `v1.0.0`, `01.0.0` —
      // was tolerated here; the URL has to lie below the package's own URL)
      if !inside {
        report.fail("oracle", "url-attributed-to-other-package", format!("{} -> {} whose directory is {}", url, nv, base), json!({"url": u}));
      }
    }
  }
  // a registry below a path (a mirror): package URLs lie below the registry URL and map back
  for base in ["https://registry.example.com/jsr/", "https://mirror.test/a/b/", "http://localhost:8000/"] {
    let regb = ModuleSpecifier::parse(base).unwrap();
    for name in PKG_NAMES {
      for v in VERSIONS.iter().take(2) {
        let nv = PackageNv { name: (*name).into(), version: Version::parse_standard(v).unwrap() };
        let url = deno_graph::source::recommended_registry_package_url(&regb, &nv);
        report.evaluations += 1;
        let want = format!("{}{}/{}/", base, name, v);
        if url.as_str() != want {
          report.fail("oracle", "package-url-not-below-registry-url", format!("registry {}: {} -> {}, expected {}", base, nv, url, want), json!({}));
        }
        for tail in ["", "mod.ts", "a/b/c.ts"] {
          let u = url.join(tail).unwrap();
          if deno_graph::source::recommended_registry_package_url_to_nv(&regb, &u).as_ref() != Some(&nv) {
            report.fail("oracle", "url-nv-round-trip-fails", format!("registry {}: {} -> {} does not map back", base, nv, u), json!({}));
          }
        }
      }
    }
  }
  for name in PKG_NAMES {
    for v in VERSIONS {
      let nv = PackageNv { name: (*name).into(), version: Version::parse_standard(v).unwrap() };
      let url = deno_graph::source::recommended_registry_package_url(&reg, &nv);
      batch.push(format!("(jsr-pkgurl {} {} {})", satom(REG), satom(name), satom(v)), url.to_string(), false);
      report.evaluations += 1;
      for tail in ["", "mod.ts", "a/b/c.ts"] {
        let u = url.join(tail).unwrap();
        if deno_graph::source::recommended_registry_package_url_to_nv(&reg, &u).as_ref() != Some(&nv) {
          report.fail("oracle", "url-nv-round-trip-fails", format!("{} -> {} does not map back", nv, u), json!({}));
        }
      }
    }
  }
  report.exhaustive.push("export lookup: 8 exports values x 8 export names; URL round trip: every package x version of the universe x 3 tails".into());

  // (B) pass correspondence
  let n_flat = if tier == "thorough" { 4000 } else { 500 };
  pass_part(&mut report, &mut batch, &mut rng, n_flat, 4);

  // (C) nested worlds
  let n_nested = if tier == "thorough" { 3000 } else { 400 };
  for i in 0..n_nested {
    let mut wr = rng.fork();
    let cfg = RegCfg { faults: i % 4 == 3, ..Default::default() };
    let w = gen_reg_world(&mut wr, &cfg);
    let loader = RegLoader::new(&w);
    match build_reg(&w, &loader) {
      Ok(b) => {
        report.count("nested:built");
        report.count_n("nested:modules", b.graph.modules().count() as u64);
        oracles(&w, &b, &loader, &mut report);
      }
      Err(f) => report.fail("oracle", "registry-build-failed", format!("{:?}", f), w.describe()),
    }
  }
  batch.finish(&mut report, "C07");
  if report.failures.iter().any(|f| f.kind == "correspondence")
    && !report.failures.iter().any(|f| f.kind == "oracle" && f.shape != "requirement-resolved-twice-to-different-versions")
  {
    search_failing_input(&mut report, &mut rng, 40_000, true);
  }
  report
}

/// (B) flat registry worlds: one whole resolution pass, model vs implementation
pub fn pass_part(report: &mut Report, batch: &mut Batch, rng: &mut Rng, n_flat: usize, one_package_every: usize) {
  for i in 0..n_flat {
    let mut wr = rng.fork();
    let w = flat_world(&mut wr, i % 3 == 1, one_package_every > 0 && i % one_package_every == 0);
    let two_step = i % 4 == 3;
    batch.descs.push(json!({"part": "B", "two_step": two_step, "world": w.describe()}));
    if let Some(cases) = pass_case(&w, two_step, report) {
      for c in cases {
        batch.push(c.request, c.imp, true);
        report.evaluations += 1;
      }
    }
    if i < 2 {
      report.sample(w.describe());
    }
  }

}

/// When the pass correspondence broke: search registry worlds for a concrete input on which the
/// statement itself fails on the implementation (selection tiers replayed in resolution order,
/// and optionally the C07 oracles).  Stops at the first failure or after `max` worlds.
pub fn search_failing_input(report: &mut Report, rng: &mut Rng, max: usize, with_c07: bool) {
  let before = report.failures.iter().filter(|f| f.kind == "oracle").count();
  let start = std::time::Instant::now();
  let mut tried = 0u64;
  for i in 0..max {
    if start.elapsed().as_secs() > 60 {
      break;
    }
    let mut wr = rng.fork();
    let w = if i % 2 == 0 { flat_world(&mut wr, false, true) } else { gen_reg_world(&mut wr, &RegCfg { faults: i % 8 == 7, ..Default::default() }) };
    let loader = RegLoader::new(&w);
    tried += 1;
    if let Ok(b) = build_reg(&w, &loader) {
      if with_c07 {
        oracles(&w, &b, &loader, report);
      } else {
        selection_oracle(&w, &b, &loader, report);
      }
    }
    let now = report.failures.iter().filter(|f| f.kind == "oracle" && f.shape != "requirement-resolved-twice-to-different-versions").count();
    if now > before {
      break;
    }
  }
  report.count_n("failing-input-search:worlds", tried);
  report.notes.push(format!("correspondence broke: searched {} further registry worlds for a failing input", tried));
}
