//! Abstraction of a real `ModuleGraph` into the model's `Graph` (S-expression),
//! with interning of specifiers, ranges, error texts and dependency texts.
use crate::intern::Interner;
use deno_graph::Dependency;
use deno_graph::Module;
use deno_graph::ModuleError;
use deno_graph::ModuleErrorKind;
use deno_graph::ModuleGraph;
use deno_graph::ModuleSpecifier;
use deno_graph::Resolution;
use indexmap::IndexMap;

#[derive(Default, Clone, Debug)]
pub struct Ctx {
  pub specs: Interner,
  pub ranges: Interner,
  pub errors: Interner,
  pub texts: Interner,
}

impl Ctx {
  pub fn spec(&mut self, s: &ModuleSpecifier) -> usize {
    self.specs.id(s.as_str())
  }
  pub fn to_json(&self) -> serde_json::Value {
    serde_json::json!({
      "specs": self.specs.list, "ranges": self.ranges.list,
      "errors": self.errors.list, "texts": self.texts.list,
    })
  }
}

pub fn kind_str(k: deno_graph::GraphKind) -> &'static str {
  match k {
    deno_graph::GraphKind::All => "All",
    deno_graph::GraphKind::CodeOnly => "CodeOnly",
    deno_graph::GraphKind::TypesOnly => "TypesOnly",
  }
}

pub fn res(ctx: &mut Ctx, r: &Resolution) -> String {
  match r {
    Resolution::None => "n".into(),
    Resolution::Ok(ok) => {
      let s = ctx.spec(&ok.specifier);
      let rng = ctx.ranges.id(&ok.range.to_string());
      format!("(ok {} {})", s, rng)
    }
    Resolution::Err(e) => {
      let c = ctx.errors.id(&e.to_string_with_range());
      format!("(err {})", c)
    }
  }
}

pub fn file_text(text: &str) -> u8 {
  if text.to_lowercase().starts_with("file://") { 1 } else { 0 }
}

pub fn dep(ctx: &mut Ctx, text: &str, d: &Dependency) -> String {
  let t = ctx.texts.id(text);
  let c = res(ctx, &d.maybe_code);
  let ty = res(ctx, &d.maybe_type);
  format!("(d {} {} {} {} {})", t, file_text(text), c, ty, if d.is_dynamic { 1 } else { 0 })
}

pub fn deps(ctx: &mut Ctx, ds: &IndexMap<String, Dependency>) -> String {
  ds.iter().map(|(t, d)| dep(ctx, t, d)).collect::<Vec<_>>().join(" ")
}

pub fn module(ctx: &mut Ctx, m: &Module) -> String {
  match m {
    Module::Js(js) => {
      let ds = deps(ctx, &js.dependencies);
      let td = match &js.maybe_types_dependency {
        None => "n".to_string(),
        Some(td) => {
          let t = ctx.texts.id(&td.specifier);
          let r = res(ctx, &td.dependency);
          format!("(td {} {} {})", t, file_text(&td.specifier), r)
        }
      };
      let fc = match js.fast_check_module() {
        None => "n".to_string(),
        Some(fc) => format!("(fc {})", deps(ctx, &fc.dependencies)),
      };
      format!("(js {:?} (deps {}) {} {})", js.media_type, ds, td, fc)
    }
    Module::Wasm(w) => format!("(wasm (deps {}))", deps(ctx, &w.dependencies)),
    Module::Json(_) => "json".into(),
    Module::Npm(_) => "npm".into(),
    Module::Node(_) => "node".into(),
    Module::External(_) => "external".into(),
  }
}

pub fn error_slot(ctx: &mut Ctx, e: &ModuleError) -> String {
  let missing = matches!(e.as_kind(), ModuleErrorKind::Missing { .. });
  let code = ctx.errors.id(&e.to_string_with_range());
  let es = ctx.spec(e.specifier());
  format!("(err {} {} {})", if missing { 1 } else { 0 }, code, es)
}

pub fn scheme_str(s: &ModuleSpecifier) -> &'static str {
  match s.scheme() {
    "https" => "https",
    "http" => "http",
    "file" => "file",
    _ => "other",
  }
}

/// Dump the whole graph. Also returns the list of slot keys (interned).
pub fn graph(ctx: &mut Ctx, g: &ModuleGraph) -> String {
  let roots = g.roots.iter().map(|r| ctx.spec(r).to_string()).collect::<Vec<_>>().join(" ");
  let mut slots = vec![];
  for (k, slot, _is_asset) in g.verif_slots() {
    let key = ctx.spec(k);
    let s = match slot {
      None => "pending".to_string(),
      Some(Ok(m)) => module(ctx, m),
      Some(Err(e)) => error_slot(ctx, e),
    };
    slots.push(format!("({} {})", key, s));
  }
  let mut redirects = vec![];
  for (a, b) in &g.redirects {
    redirects.push(format!("({} {})", ctx.spec(a), ctx.spec(b)));
  }
  let mut imports = vec![];
  for (r, gi) in &g.imports {
    let rr = ctx.spec(r);
    imports.push(format!("({} {})", rr, deps(ctx, &gi.dependencies)));
  }
  // schemes of everything interned so far (targets included)
  let mut schemes = vec![];
  for (i, s) in ctx.specs.list.iter().enumerate() {
    if let Ok(u) = ModuleSpecifier::parse(s) {
      let sc = scheme_str(&u);
      if sc != "other" {
        schemes.push(format!("({} {})", i, sc));
      }
    }
  }
  format!(
    "(graph {} (roots {}) (slots {}) (redirects {}) (imports {}) (schemes {}))",
    kind_str(g.graph_kind()),
    roots,
    slots.join(" "),
    redirects.join(" "),
    imports.join(" "),
    schemes.join(" ")
  )
}
