//! Implementation-side answers to the driver's graph queries, in the driver's
//! canonical output format, plus the request lines themselves.
use crate::dump::Ctx;
use crate::dump::kind_str;
use deno_graph::CheckJsOption;
use deno_graph::CheckJsResolver;
use deno_graph::GraphKind;
use deno_graph::ModuleEntryRef;
use deno_graph::ModuleErrorKind;
use deno_graph::ModuleGraph;
use deno_graph::ModuleGraphError;
use deno_graph::ModuleSpecifier;
use deno_graph::ResolutionError;
use deno_graph::WalkOptions;
use std::collections::HashSet;

#[derive(Debug, Clone)]
pub struct CustomCheckJs(pub HashSet<String>);
impl CheckJsResolver for CustomCheckJs {
  fn resolve(&self, specifier: &ModuleSpecifier) -> bool {
    self.0.contains(specifier.as_str())
  }
}

#[derive(Debug, Clone)]
pub enum CheckJs {
  True,
  False,
  Custom(Vec<usize>),
}

#[derive(Debug, Clone)]
pub struct WOpts {
  pub kind: GraphKind,
  pub follow_dynamic: bool,
  pub check_js: CheckJs,
  pub prefer_fast_check: bool,
}

impl WOpts {
  pub fn sexp(&self) -> String {
    let cj = match &self.check_js {
      CheckJs::True => "t".to_string(),
      CheckJs::False => "f".to_string(),
      CheckJs::Custom(l) => {
        format!("(c {})", l.iter().map(|x| x.to_string()).collect::<Vec<_>>().join(" "))
      }
    };
    format!(
      "{} {} {} {}",
      kind_str(self.kind),
      if self.follow_dynamic { 1 } else { 0 },
      cj,
      if self.prefer_fast_check { 1 } else { 0 }
    )
  }
  pub fn label(&self) -> String {
    format!(
      "{}/fd{}/cj{}/fc{}",
      kind_str(self.kind),
      self.follow_dynamic as u8,
      match &self.check_js {
        CheckJs::True => "T".to_string(),
        CheckJs::False => "F".to_string(),
        CheckJs::Custom(l) => format!("C{}", l.len()),
      },
      self.prefer_fast_check as u8
    )
  }
}

pub fn all_wopts(custom: Option<Vec<usize>>) -> Vec<WOpts> {
  let mut v = vec![];
  for kind in [GraphKind::All, GraphKind::CodeOnly, GraphKind::TypesOnly] {
    for fd in [false, true] {
      let mut cjs = vec![CheckJs::True, CheckJs::False];
      if let Some(c) = &custom {
        cjs.push(CheckJs::Custom(c.clone()));
      }
      for cj in cjs {
        for pfc in [false, true] {
          v.push(WOpts { kind, follow_dynamic: fd, check_js: cj.clone(), prefer_fast_check: pfc });
        }
      }
    }
  }
  v
}

pub fn with_walk_options<R>(ctx: &Ctx, o: &WOpts, f: impl FnOnce(WalkOptions) -> R) -> R {
  let custom;
  let check_js = match &o.check_js {
    CheckJs::True => CheckJsOption::True,
    CheckJs::False => CheckJsOption::False,
    CheckJs::Custom(l) => {
      custom = CustomCheckJs(l.iter().map(|i| ctx.specs.name(*i).to_string()).collect());
      CheckJsOption::Custom(&custom)
    }
  };
  f(WalkOptions {
    check_js,
    follow_dynamic: o.follow_dynamic,
    kind: o.kind,
    prefer_fast_check_graph: o.prefer_fast_check,
  })
}

pub fn spec_of(ctx: &Ctx, i: usize) -> ModuleSpecifier {
  ModuleSpecifier::parse(ctx.specs.name(i)).unwrap()
}

pub fn opt_nat(o: Option<usize>) -> String {
  match o {
    Some(n) => n.to_string(),
    None => "-".into(),
  }
}

// ---- lookups -------------------------------------------------------------

pub fn req_lookup(s: usize) -> String {
  format!("(lookup {})", s)
}

pub fn try_get_str(ctx: &mut Ctx, r: Result<Option<&deno_graph::Module>, &deno_graph::ModuleError>) -> String {
  match r {
    Ok(Some(m)) => format!("m{}", ctx.spec(m.specifier())),
    Ok(None) => "-".into(),
    Err(e) => format!("e{}", ctx.errors.id(&e.to_string_with_range())),
  }
}

pub fn impl_lookup(ctx: &mut Ctx, g: &ModuleGraph, s: usize) -> String {
  let spec = spec_of(ctx, s);
  let r = g.resolve(&spec).clone();
  let get = g.get(&spec).map(|m| m.specifier().clone());
  let contains = g.contains(&spec);
  let tg = try_get_str(ctx, g.try_get(&spec));
  let tgpt = try_get_str(ctx, g.try_get_prefer_types(&spec));
  format!(
    "resolve={} get={} contains={} tryget={} trygetpt={}",
    ctx.spec(&r),
    opt_nat(get.map(|u| ctx.spec(&u))),
    if contains { 1 } else { 0 },
    tg,
    tgpt
  )
}

pub fn req_specifiers() -> String {
  "(specifiers)".into()
}

pub fn impl_specifiers(ctx: &mut Ctx, g: &ModuleGraph) -> String {
  let mut out = vec![];
  for (k, r) in g.specifiers() {
    let key = ctx.spec(k);
    match r {
      Ok(m) => out.push(format!("{}=m{}", key, ctx.spec(m.specifier()))),
      Err(e) => out.push(format!("{}=e{}", key, ctx.errors.id(&e.to_string_with_range()))),
    }
  }
  out.join(" ")
}

pub fn req_resdep(dep_sexp: &str, prefer_types: bool) -> String {
  format!("(resdep {} {})", dep_sexp, if prefer_types { 1 } else { 0 })
}

// ---- walks ---------------------------------------------------------------

pub fn req_walk(o: &WOpts, roots: &[usize], skip: &[usize]) -> String {
  format!(
    "(walk {} (roots {}) (skip {}))",
    o.sexp(),
    roots.iter().map(|x| x.to_string()).collect::<Vec<_>>().join(" "),
    skip.iter().map(|x| x.to_string()).collect::<Vec<_>>().join(" ")
  )
}

pub fn entry_str(ctx: &mut Ctx, e: &ModuleEntryRef) -> String {
  match e {
    ModuleEntryRef::Module(_) => "m".into(),
    ModuleEntryRef::Err(err) => format!("e{}", ctx.errors.id(&err.to_string_with_range())),
    ModuleEntryRef::Redirect(to) => format!("r{}", ctx.spec(to)),
  }
}

/// the implementation's walk, as a sequence of "key:entry" tokens
pub fn impl_walk(ctx: &mut Ctx, g: &ModuleGraph, o: &WOpts, roots: &[usize], skip: &[usize]) -> Vec<String> {
  let root_specs: Vec<ModuleSpecifier> = roots.iter().map(|r| spec_of(ctx, *r)).collect();
  let skip_set: HashSet<String> = skip.iter().map(|i| ctx.specs.name(*i).to_string()).collect();
  let ctx_ro = ctx.clone();
  let collected: Vec<(ModuleSpecifier, String)> = with_walk_options(&ctx_ro, o, |wo| {
    let mut out = vec![];
    let mut it = g.walk(root_specs.iter(), wo);
    let mut tmp = Ctx::default();
    let _ = &mut tmp;
    while let Some((k, e)) = it.next() {
      let tag = match e {
        ModuleEntryRef::Module(_) => "m".to_string(),
        ModuleEntryRef::Err(err) => format!("E{}", err.to_string_with_range()),
        ModuleEntryRef::Redirect(to) => format!("R{}", to.as_str()),
      };
      if skip_set.contains(k.as_str()) {
        it.skip_previous_dependencies();
      }
      out.push((k.clone(), tag));
    }
    out
  });
  collected
    .into_iter()
    .map(|(k, tag)| {
      let key = ctx.spec(&k);
      let e = if tag == "m" {
        "m".to_string()
      } else if let Some(err) = tag.strip_prefix('E') {
        format!("e{}", ctx.errors.id(err))
      } else {
        format!("r{}", ctx.specs.id(&tag[1..]))
      };
      format!("{}:{}", key, e)
    })
    .collect()
}

// ---- errors --------------------------------------------------------------

pub fn req_errors(o: &WOpts, roots: &[usize]) -> String {
  format!(
    "(errors {} (roots {}))",
    o.sexp(),
    roots.iter().map(|x| x.to_string()).collect::<Vec<_>>().join(" ")
  )
}

pub fn res_err_str(ctx: &mut Ctx, e: &ResolutionError) -> String {
  match e {
    ResolutionError::InvalidDowngrade { specifier, range } => {
      format!("dg{}@{}", ctx.spec(specifier), ctx.ranges.id(&range.to_string()))
    }
    ResolutionError::InvalidLocalImport { specifier, range } => {
      format!("li{}@{}", ctx.spec(specifier), ctx.ranges.id(&range.to_string()))
    }
    other => format!("c{}", ctx.errors.id(&other.to_string_with_range())),
  }
}

pub fn graph_err_str(ctx: &mut Ctx, e: &ModuleGraphError) -> String {
  match e {
    ModuleGraphError::ModuleError(me) => match me.as_kind() {
      ModuleErrorKind::MissingDynamic { specifier, referrer } => {
        format!("MD{}@{}", ctx.spec(specifier), ctx.ranges.id(&referrer.to_string()))
      }
      _ => format!("M{}", ctx.errors.id(&me.to_string_with_range())),
    },
    ModuleGraphError::ResolutionError(re) => format!("R:{}", res_err_str(ctx, re)),
    ModuleGraphError::TypesResolutionError(re) => format!("T:{}", res_err_str(ctx, re)),
  }
}

pub fn impl_errors(ctx: &mut Ctx, g: &ModuleGraph, o: &WOpts, roots: &[usize]) -> Vec<String> {
  let root_specs: Vec<ModuleSpecifier> = roots.iter().map(|r| spec_of(ctx, *r)).collect();
  let ctx_ro = ctx.clone();
  let errs: Vec<ModuleGraphError> =
    with_walk_options(&ctx_ro, o, |wo| g.walk(root_specs.iter(), wo).errors().collect());
  errs.iter().map(|e| graph_err_str(ctx, e)).collect()
}

pub fn impl_validate(ctx: &mut Ctx, g: &ModuleGraph, o: &WOpts, roots: &[usize]) -> Option<String> {
  let root_specs: Vec<ModuleSpecifier> = roots.iter().map(|r| spec_of(ctx, *r)).collect();
  let ctx_ro = ctx.clone();
  let r = with_walk_options(&ctx_ro, o, |wo| g.walk(root_specs.iter(), wo).validate());
  r.err().map(|e| graph_err_str(ctx, &e))
}

pub fn impl_valid(ctx: &mut Ctx, g: &ModuleGraph) -> String {
  match g.valid() {
    Ok(()) => "ok".into(),
    Err(e) => graph_err_str(ctx, &e),
  }
}

pub fn sorted_tokens(line: &str) -> Vec<String> {
  let mut v: Vec<String> = line.split_whitespace().map(|s| s.to_string()).collect();
  v.sort();
  v
}
