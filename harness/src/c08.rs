//! C08 — module analysis finds every dependency once, with exact specifier ranges.
use crate::report::*;
use crate::rng::Rng;
use crate::walkprops::Batch;
use deno_graph::ModuleSpecifier;
use deno_graph::Position;
use deno_graph::PositionRange;
use deno_graph::analysis::*;
use serde_json::json;
use std::sync::Arc;

#[derive(Clone, Debug)]
pub struct Lit {
  /// the unescaped value
  pub value: String,
  /// as written in the source, quotes included
  pub written: String,
}

#[derive(Clone, Debug, PartialEq, Eq, PartialOrd, Ord)]
pub struct Expect {
  pub cat: String,
  pub text: String,
  /// what the reported range must cover in the source
  pub written: String,
}

const NAMES: &[&str] = &["./a.ts", "../lib/b.js", "npm:chalk@5", "jsr:@std/path@^1/posix", "https://x.test/m.ts", "./caf\u{e9}.ts", "./\u{1F600}/e.mjs", "./d.json", "node:fs", "@scope/pkg/sub", "./sp ace.ts"];

fn gen_lit(rng: &mut Rng) -> Lit {
  let value = NAMES[rng.below(NAMES.len())].to_string();
  let q = if rng.chance(1, 2) { '"' } else { '\'' };
  let mut body = String::new();
  for c in value.chars() {
    match rng.below(14) {
      0 if c.is_ascii_alphabetic() => body.push_str(&format!("\\x{:02x}", c as u32)),
      1 => body.push_str(&format!("\\u{{{:x}}}", c as u32)),
      2 if (c as u32) < 0x10000 => body.push_str(&format!("\\u{:04x}", c as u32)),
      _ => body.push(c),
    }
  }
  Lit { value, written: format!("{}{}{}", q, body, q) }
}

fn plain_lit(rng: &mut Rng) -> Lit {
  let value = NAMES[rng.below(NAMES.len())].to_string();
  Lit { written: format!("\"{}\"", value), value }
}

fn trivia(rng: &mut Rng) -> String {
  match rng.below(9) {
    0 => "// import \"./decoy-line.ts\"; require('./decoy-r')\n".into(),
    1 => "/* import(\"./decoy-block.ts\")\n   \u{fc}n\u{ef}c\u{f6}d\u{e9} \u{1F600} export * from './decoy2' */\n".into(),
    2 => "const s1 = \"import('./decoy-str.ts')\";\n".into(),
    3 => "const \u{e9}t\u{e9} = `require(\"./decoy-tpl\")`; /* \u{1F600} */\n".into(),
    4 => "\n\n".into(),
    5 => "   \t".into(),
    6 => "/** plain doc comment with import('./decoy-doc') */\n".into(),
    _ => String::new(),
  }
}

pub struct Program {
  pub ext: &'static str,
  pub text: String,
  pub expected: Vec<Expect>,
  pub desc: Vec<String>,
}

fn dyn_expr(rng: &mut Rng, depth: usize, out: &mut Vec<Expect>, desc: &mut Vec<String>, typed: bool) -> String {
  // children first: the collector visits a call's arguments before the call itself
  let kinds = ["import", "import", "import.source", "import.defer", "require"];
  let kind = kinds[rng.below(kinds.len())];
  let cat_kind = match kind {
    "import" => "import",
    "import.source" => "importSource",
    "import.defer" => "importDefer",
    _ => "require",
  };
  let (arg_text, expect): (String, Option<(String, String)>) = match rng.below(8) {
    0 | 1 | 2 => {
      let l = gen_lit(rng);
      (l.written.clone(), Some((format!("str:{}", l.value), l.written)))
    }
    3 => {
      // a template without substitutions is a plain string: its cooked (unescaped) text counts
      let l = gen_lit(rng);
      let body = &l.written[1..l.written.len() - 1];
      let w = format!("`{}`", body);
      (w.clone(), Some((format!("str:{}", l.value), w)))
    }
    4 => {
      let w = "`./dir/${name}.ts`".to_string();
      (w.clone(), Some(("tpl:[./dir/|$|.ts]".to_string(), w)))
    }
    5 => {
      let w = "\"./p/\" + name + \".js\"".to_string();
      (w.clone(), Some(("tpl:[./p/|$|.js]".to_string(), w)))
    }
    6 if depth < 2 => {
      // the argument is itself an expression containing an analysable import
      let inner = dyn_expr(rng, depth + 1, out, desc, typed);
      let w = format!("({}).default", inner);
      (w.clone(), Some(("expr".to_string(), w)))
    }
    _ => {
      let w = "someVariable".to_string();
      (w.clone(), Some(("expr".to_string(), w)))
    }
  };
  let attrs = if kind != "require" && rng.chance(1, 5) { ", { with: { type: \"json\" } }" } else { "" };
  let callee = if kind == "require" { "require".to_string() } else { kind.to_string() };
  let _ = typed;
  let text = format!("{}({}{})", callee, arg_text, attrs);
  if let Some((t, w)) = expect {
    out.push(Expect { cat: format!("dynamic:{}{}", cat_kind, if attrs.is_empty() { "" } else { "+attrs" }), text: t, written: w });
    desc.push(format!("dyn {}", text));
  }
  text
}

pub fn gen_program(rng: &mut Rng, idx: usize) -> Program {
  let exts = ["ts", "js", "tsx", "jsx", "mts", "mjs", "d.ts", "cjs"];
  let ext = exts[idx % exts.len()];
  let typed = crate::world::is_typed_ext(ext);
  let jsx = matches!(ext, "tsx" | "jsx");
  let dts = ext == "d.ts";
  let cjs = ext == "cjs";
  let mut top = String::new();
  let mut body = String::new();
  let mut tail = String::new();
  let mut expected: Vec<Expect> = vec![];
  let mut desc: Vec<String> = vec![];
  if rng.chance(1, 8) {
    top.push_str("#!/usr/bin/env -S deno run\n");
  }
  // leading pragmas / references
  let nrefs = rng.below(3);
  for _ in 0..nrefs {
    let l = plain_lit(rng);
    if rng.chance(1, 2) {
      top.push_str(&format!("/// <reference path={} />\n", l.written));
      expected.push(Expect { cat: "ref-path".into(), text: l.value.clone(), written: l.written.clone() });
    } else {
      let mode = match rng.below(3) {
        0 => " resolution-mode=\"require\"",
        1 => " resolution-mode=\"import\"",
        _ => "",
      };
      top.push_str(&format!("/// <reference types={}{} />\n", l.written, mode));
      expected.push(Expect { cat: format!("ref-types{}", mode.replace(' ', "").replace('"', "")), text: l.value.clone(), written: l.written.clone() });
    }
    desc.push("ref".into());
  }
  if !typed && rng.chance(1, 4) {
    let l = plain_lit(rng);
    top.push_str(&format!("// @ts-self-types={}\n", l.written));
    expected.push(Expect { cat: "self-types".into(), text: l.value.clone(), written: l.written.clone() });
  }
  if jsx && rng.chance(1, 3) {
    top.push_str("/** @jsxImportSource https://esm.sh/preact */\n");
    expected.push(Expect { cat: "jsx".into(), text: "https://esm.sh/preact".into(), written: "https://esm.sh/preact".into() });
    if rng.chance(1, 2) {
      top.push_str("/** @jsxImportSourceTypes npm:@types/react@18 */\n");
      expected.push(Expect { cat: "jsx-types".into(), text: "npm:@types/react@18".into(), written: "npm:@types/react@18".into() });
    }
  }
  // statements
  let n = 1 + rng.below(7);
  for i in 0..n {
    body.push_str(&trivia(rng));
    let mut form = rng.below(if typed { 16 } else { 11 });
    if cjs && form <= 5 {
      form = 6; // no import/export declarations in a script
    }
    match form {
      0..=5 if !dts || form < 5 => {
        // static import / export-from
        let l = gen_lit(rng);
        let attrs = if rng.chance(1, 6) { " with { type: \"json\" }" } else { "" };
        let (text, kind, side_effect) = match rng.below(if typed { 11 } else { 8 }) {
          0 => (format!("import {}{};", l.written, attrs), "import", true),
          1 => (format!("import d{} from {}{};", i, l.written, attrs), "import", false),
          2 => (format!("import {{ a as b{} }} from {}{};", i, l.written, attrs), "import", false),
          3 => (format!("import * as ns{} from {}{};", i, l.written, attrs), "import", false),
          4 => (format!("export * from {}{};", l.written, attrs), "export", false),
          5 => (format!("export {{ x{} }} from {}{};", i, l.written, attrs), "export", false),
          6 => (format!("export * as e{} from {}{};", i, l.written, attrs), "export", false),
          7 => (format!("import defer * as df{} from {}{};", i, l.written, attrs), "importDefer", false),
          8 => (format!("import type {{ T{} }} from {}{};", i, l.written, attrs), "importType", false),
          9 => (format!("export type {{ U{} }} from {}{};", i, l.written, attrs), "exportType", false),
          _ => (format!("import type D{} from {}{};", i, l.written, attrs), "importType", false),
        };
        // an optional types pragma right before the statement
        let mut pragma_cat = String::new();
        if rng.chance(1, 5) && !kind.contains("Type") {
          let t = plain_lit(rng);
          match rng.below(4) {
            0 => {
              body.push_str(&format!("// @ts-types={}\n", t.written));
              expected.push(Expect { cat: "types-pragma".into(), text: t.value.clone(), written: t.written.clone() });
            }
            3 => {
              // block-comment pragma on the statement's own line, after a non-ASCII comment
              // (a comment after code on the same line trails that code: the pragma must lead the statement)
              body.push_str(&format!("const \u{e7}a{} = \"\u{1F600}\";\n  /* \u{e9} */ /* @ts-types={} */ ", i, t.written));
              expected.push(Expect { cat: "types-pragma".into(), text: t.value.clone(), written: t.written.clone() });
            }
            1 => {
              body.push_str(&format!("// @deno-types={}\n", t.written));
              expected.push(Expect { cat: "types-pragma".into(), text: t.value.clone(), written: t.written.clone() });
            }
            _ => {
              let v = t.value.replace(' ', "_");
              body.push_str(&format!("// @deno-types={}\n", v));
              expected.push(Expect { cat: "types-pragma".into(), text: v.clone(), written: v });
            }
          }
          pragma_cat = "+types".into();
        }
        body.push_str(&text);
        body.push('\n');
        expected.push(Expect {
          cat: format!("static:{}{}{}{}", kind, if side_effect { "+side" } else { "" }, if attrs.is_empty() { "" } else { "+attrs" }, pragma_cat),
          text: l.value.clone(),
          written: l.written.clone(),
        });
        desc.push(text);
      }
      6..=9 => {
        let mut sub: Vec<Expect> = vec![];
        let e = dyn_expr(rng, 0, &mut sub, &mut desc, typed);
        let wrapped = match rng.below(6) {
          0 if !cjs => format!("const v{} = await {};", i, e),
          1 => format!("foo({}, 1);", e),
          2 => format!("if (cond) {{ {}; }}", e),
          3 => format!("const f{} = async () => {{ return [{}]; }};", i, e),
          4 => format!("({}).then((m) => m);", e),
          _ => format!("{};", e),
        };
        if !dts {
          body.push_str(&wrapped);
          body.push('\n');
          expected.extend(sub);
        }
      }
      10 => {
        if !typed && !dts {
          let l = plain_lit(rng);
          match rng.below(5) {
            0 => body.push_str(&format!("/** @type {{import({}).J{}}} */\nconst j{} = null;\n", l.written, i, i)),
            1 => body.push_str(&format!("/** @import {{ J{} }} from {} */\n", i, l.written)),
            2 => body.push_str(&format!("/**\n * d\u{e9}j\u{e0} vu \u{1F600}\n * @import {{ J{} }} from {}\n */\n", i, l.written)),
            3 => body.push_str(&format!("const \u{e9}{} = 1; /** \u{1F600} @type {{import({}).J{}}} */ const j{} = null;\n", i, l.written, i, i)),
            _ => body.push_str(&format!("/**\n * @param {{import({}).J{}}} a \u{e9}\n * @returns {{void}}\n */\nfunction fn{}(a) {{}}\n", l.written, i, i)),
          }
          expected.push(Expect { cat: "jsdoc".into(), text: l.value.clone(), written: l.written.clone() });
          desc.push("jsdoc".into());
        }
      }
      11 | 12 => {
        let l = gen_lit(rng);
        body.push_str(&format!("type A{} = import({}).T;\n", i, l.written));
        expected.push(Expect { cat: "static:importType".into(), text: l.value.clone(), written: l.written.clone() });
        desc.push("import type expr".into());
      }
      13 => {
        let l = gen_lit(rng);
        let (pre, kind) = match rng.below(4) {
          0 => ("import", "importEquals"),
          1 => ("export import", "exportEquals"),
          2 => ("export import type", "importType"),
          _ => ("import type", "importType"),
        };
        body.push_str(&format!("{} ie{} = require({});\n", pre, i, l.written));
        expected.push(Expect { cat: format!("static:{}", kind), text: l.value.clone(), written: l.written.clone() });
        desc.push("import equals".into());
      }
      14 => {
        // ambient module declarations: plain names and relative wildcards are (possible) augmentations,
        // other wildcard patterns are not dependencies; whatever the name, the body is searched
        let l = if rng.chance(1, 2) {
          plain_lit(rng)
        } else {
          let v = *rng.pick(&["*.css", "./*.svg", "/abs/*", "../x/*.d", "pre*post", "*"]);
          Lit { value: v.to_string(), written: format!("\"{}\"", v) }
        };
        let mut inner = String::from("export const x: number; ");
        for k in 0..rng.below(3) {
          let d = plain_lit(rng);
          let (text, cat) = match rng.below(6) {
            0 => (format!("import type {{ T{}_{} }} from {}; ", i, k, d.written), "static:importType"),
            1 => (format!("import {{ a{}_{} }} from {}; ", i, k, d.written), "static:import"),
            2 => (format!("export * from {}; ", d.written), "static:export"),
            3 => (format!("export {{ b{}_{} }} from {}; ", i, k, d.written), "static:export"),
            4 => (format!("type A{}_{} = import({}).T; ", i, k, d.written), "static:importType"),
            _ => (format!("import r{}_{} = require({}); ", i, k, d.written), "static:importEquals"),
          };
          inner.push_str(&text);
          expected.push(Expect { cat: cat.into(), text: d.value.clone(), written: d.written.clone() });
        }
        body.push_str(&format!("declare module {} {{ {}}}\n", l.written, inner));
        let v = &l.value;
        if !v.contains('*') || v.starts_with("./") || v.starts_with("../") || v.starts_with('/') {
          expected.push(Expect { cat: "static:maybeTsModuleAugmentation".into(), text: l.value.clone(), written: l.written.clone() });
        }
        desc.push("declare module".into());
        // the same constructs inside a namespace / global augmentation
        if rng.chance(1, 3) {
          let d = plain_lit(rng);
          if rng.chance(1, 2) {
            body.push_str(&format!("namespace NS{} {{ export type Q = import({}).T; }}\n", i, d.written));
          } else {
            body.push_str(&format!("declare global {{ type G{} = import({}).T; }}\n", i, d.written));
          }
          expected.push(Expect { cat: "static:importType".into(), text: d.value.clone(), written: d.written.clone() });
        }
      }
      _ => {
        body.push_str(&format!("export const k{} = {};\n", i, i));
      }
    }
  }
  if jsx {
    body.push_str("export const el = <div/>;\n");
  }
  if rng.chance(1, 4) {
    let url = ["./m.js.map", "https://x.test/maps/m.map", "data:application/json;base64,e30="][rng.below(3)];
    tail = format!("//# sourceMappingURL={}\n", url);
    expected.push(Expect { cat: "source-map".into(), text: url.into(), written: url.into() });
  }
  let mut text = format!("{}{}{}", top, body, tail);
  if rng.chance(1, 3) {
    text = text.replace('\n', "\r\n");
    // what a range covers is taken from the final text, so adjust the written forms likewise (none contain newlines)
  }
  Program { ext, text, expected, desc }
}

/// slice of `text` covered by a (line, character) range; lines end at `\n` only, columns count characters
pub fn slice(text: &str, r: &PositionRange) -> Option<String> {
  let off = |p: &Position| -> Option<usize> {
    let mut line = 0usize;
    let mut start = 0usize; // byte offset of the line start
    if p.line > 0 {
      for (i, b) in text.bytes().enumerate() {
        if b == b'\n' {
          line += 1;
          if line == p.line {
            start = i + 1;
            break;
          }
        }
      }
      if line != p.line {
        return None;
      }
    }
    let rest = &text[start..];
    let mut it = rest.char_indices();
    for _ in 0..p.character {
      it.next()?;
    }
    Some(start + it.next().map(|x| x.0).unwrap_or(rest.len()))
  };
  let s = off(&r.start)?;
  let e = off(&r.end)?;
  if s > e {
    return None;
  }
  text.get(s..e).map(|x| x.to_string())
}

fn attrs_tag(a: &ImportAttributes) -> &'static str {
  if a.is_none() { "" } else { "+attrs" }
}

/// what the analysis reported, in the generator's categories
pub fn reported(info: &ModuleInfo, text: &str) -> Vec<(Expect, Option<String>)> {
  let mut out = vec![];
  let mut push = |cat: String, t: String, r: &PositionRange| {
    let s = slice(text, r);
    out.push((Expect { cat, text: t, written: s.clone().unwrap_or_default() }, s));
  };
  for d in &info.dependencies {
    match d {
      DependencyDescriptor::Static(s) => {
        let kind = serde_json::to_value(s.kind).unwrap().as_str().unwrap().to_string();
        if let Some(ts) = &s.types_specifier {
          push("types-pragma".into(), ts.text.clone(), &ts.range);
        }
        push(
          format!("static:{}{}{}{}", kind, if s.is_side_effect { "+side" } else { "" }, attrs_tag(&s.import_attributes), if s.types_specifier.is_some() { "+types" } else { "" }),
          s.specifier.clone(),
          &s.specifier_range,
        );
      }
      DependencyDescriptor::Dynamic(dd) => {
        let kind = serde_json::to_value(dd.kind).unwrap().as_str().unwrap().to_string();
        let t = match &dd.argument {
          DynamicArgument::String(s) => format!("str:{}", s),
          DynamicArgument::Template(parts) => format!(
            "tpl:[{}]",
            parts.iter().map(|p| match p { DynamicTemplatePart::String { value } => value.clone(), DynamicTemplatePart::Expr => "$".into() }).collect::<Vec<_>>().join("|")
          ),
          DynamicArgument::Expr => "expr".into(),
        };
        if let Some(ts) = &dd.types_specifier {
          push("types-pragma".into(), ts.text.clone(), &ts.range);
        }
        push(format!("dynamic:{}{}", kind, attrs_tag(&dd.import_attributes)), t, &dd.argument_range);
      }
    }
  }
  for r in &info.ts_references {
    match r {
      TypeScriptReference::Path(s) => push("ref-path".into(), s.text.clone(), &s.range),
      TypeScriptReference::Types { specifier, resolution_mode } => push(
        format!("ref-types{}", match resolution_mode { Some(TypeScriptTypesResolutionMode::Require) => "resolution-mode=require", Some(TypeScriptTypesResolutionMode::Import) => "resolution-mode=import", None => "" }),
        specifier.text.clone(),
        &specifier.range,
      ),
    }
  }
  if let Some(s) = &info.self_types_specifier {
    push("self-types".into(), s.text.clone(), &s.range);
  }
  if let Some(s) = &info.jsx_import_source {
    push("jsx".into(), s.text.clone(), &s.range);
  }
  if let Some(s) = &info.jsx_import_source_types {
    push("jsx-types".into(), s.text.clone(), &s.range);
  }
  for j in &info.jsdoc_imports {
    push("jsdoc".into(), j.specifier.text.clone(), &j.specifier.range);
  }
  if let Some(s) = &info.source_map_url {
    push("source-map".into(), s.text.clone(), &s.range);
  }
  out
}

fn cps(text: &str) -> String {
  text.chars().map(|c| (c as u32).to_string()).collect::<Vec<_>>().join(" ")
}

pub fn run(tier: &str, seed: u64) -> Report {
  let mut report = Report::new("C08");
  report.rule = "generated programs over every dependency-bearing form (import/export-from declarations incl. type-only, source and defer \
    phases and attributes; import types; import-equals; declare module; dynamic import / import.source / import.defer / require with literal, \
    template, concatenated and nested arguments; triple-slash path and types references with resolution-mode; @ts-types / @deno-types (quoted \
    and bare) / @ts-self-types / @jsxImportSource(+Types) pragmas; JSDoc imports in JavaScript; sourceMappingURL) in 8 media types with random \
    trivia (line/block/doc comments and strings holding decoy imports, non-ASCII and astral characters, escapes in string literals, shebang, \
    LF or CRLF): the multiset of (category, unescaped text) reported by ParserModuleAnalyzer::analyze_sync must equal what the generator wrote, \
    and every reported range sliced out of the source must be exactly the specifier as written (with its quotes when it has them); positions: \
    Position::from_source_pos vs the model on every offset of sampled texts, PositionRange::includes exhaustively on a grid, Dependency::includes \
    on every position of built modules; the same range checks on every module source embedded in tests/specs; \
    non-trivial = distinct (media type, category) pairs and line-ending classes"
    .into();
  crate::build::quiet_panics();
  let mut rng = Rng::new(seed ^ 0xC08);
  let mut batch = Batch::new();
  batch.descs.push(json!({"part": "positions"}));
  let n = if tier == "thorough" { 40000 } else { 4000 };
  for i in 0..n {
    let p = gen_program(&mut rng, i);
    let url = format!("file:///m{}.{}", i, p.ext);
    let spec = ModuleSpecifier::parse(&url).unwrap();
    let mt = deno_graph::MediaType::from_specifier(&spec);
    let replay = json!({"ext": p.ext, "source": p.text});
    report.evaluations += 1;
    let info = match deno_graph::ast::ParserModuleAnalyzer::default().analyze_sync(&spec, Arc::from(p.text.as_str()), mt) {
      Ok(i) => i,
      Err(e) => {
        report.fail("oracle", "generated-program-not-parsable", format!("{}: {}", p.ext, e.to_string().chars().take(200).collect::<String>()), replay);
        continue;
      }
    };
    let rep = reported(&info, &p.text);
    // ranges
    for (e, s) in &rep {
      report.nontrivial.insert(format!("{}/{}", p.ext, e.cat.split('+').next().unwrap()));
      match s {
        None => report.fail("oracle", "range-outside-source", format!("{} {:?}: the reported range does not map onto the source", e.cat, e.text), replay.clone()),
        Some(_) => {}
      }
    }
    // every dependency once, nothing else
    let mut got: Vec<Expect> = rep.iter().map(|x| x.0.clone()).collect();
    let mut want = p.expected.clone();
    got.sort();
    want.sort();
    if got != want {
      let missing: Vec<&Expect> = want.iter().filter(|w| !got.contains(w)).collect();
      let extra: Vec<&Expect> = got.iter().filter(|g| !want.contains(g)).collect();
      // distinguish a wrong range from a missing/extra dependency
      let same_deps = {
        let mut a: Vec<(String, String)> = got.iter().map(|e| (e.cat.clone(), e.text.clone())).collect();
        let mut b: Vec<(String, String)> = want.iter().map(|e| (e.cat.clone(), e.text.clone())).collect();
        a.sort();
        b.sort();
        a == b
      };
      let tokenless = {
        // drop block comments, then every remaining line must be blank, a line comment or the shebang
        let mut t = p.text.clone();
        while let Some(a) = t.find("/*") {
          match t[a..].find("*/") {
            Some(b) => t.replace_range(a..a + b + 2, ""),
            None => break,
          }
        }
        !t.lines().any(|l| {
          let l = l.trim();
          !l.is_empty() && !l.starts_with("//") && !l.starts_with("#!")
        })
      };
      let shape = if !same_deps && tokenless && extra.is_empty() && missing.iter().all(|m| m.cat == "source-map") {
        "source-map-url-of-tokenless-module-not-reported".to_string()
      } else if same_deps {
        let cat = extra.first().map(|e| e.cat.split(':').next().unwrap().split('+').next().unwrap().to_string()).unwrap_or_default();
        format!("range-does-not-cover-specifier:{}", cat)
      } else {
        "dependencies-differ-from-source".to_string()
      };
      report.fail(
        "oracle",
        &shape,
        format!("{}: written but not reported (or with another range): {:?}; reported but not written: {:?}", p.ext, missing, extra),
        replay.clone(),
      );
    }
    report.count(if p.text.contains("\r\n") { "line-ends:crlf" } else { "line-ends:lf" });
    // positions against the model: a few offsets of this text
    if i % 8 == 0 {
      let ti = deno_ast::SourceTextInfo::new(Arc::from(p.text.as_str()));
      let chars: Vec<(usize, char)> = p.text.char_indices().collect();
      let text_cps = cps(&p.text);
      for _ in 0..6 {
        let k = rng.below(chars.len() + 1);
        let byte = if k == chars.len() { p.text.len() } else { chars[k].0 };
        let pos = Position::from_source_pos(ti.range().start + byte, &ti);
        batch.push(format!("(posof (t {}) {})", text_cps, k), format!("{}:{}", pos.line, pos.character), false);
        report.evaluations += 1;
      }
    }
    if i < 2 {
      report.sample(json!({"ext": p.ext, "source": p.text, "expected": p.expected.iter().map(|e| format!("{} {} {}", e.cat, e.text, e.written)).collect::<Vec<_>>()}));
    }
  }
  // includes: exhaustive grid
  for sl in 0..3usize {
    for sc in 0..3usize {
      for el in 0..3usize {
        for ec in 0..3usize {
          for pl in 0..3usize {
            for pc in 0..3usize {
              let r = PositionRange { start: Position::new(sl, sc), end: Position::new(el, ec) };
              let got = r.includes(Position::new(pl, pc));
              batch.push(format!("(includes {} {} {} {} {} {})", sl, sc, el, ec, pl, pc), (got as u8).to_string(), false);
              report.evaluations += 1;
            }
          }
        }
      }
    }
  }
  report.exhaustive.push("PositionRange::includes on all 3^6 (start, end, position) triples over a 3x3 grid".into());
  // Dependency::includes on built modules
  dependency_includes(&mut report, &mut batch, &mut rng, if tier == "thorough" { 600 } else { 80 });
  // corpus: every reported range must map onto the source and, for quoted forms, cover a quoted literal holding the text
  let corpus = crate::c13::corpus_sources();
  let mut analysed = 0u64;
  for (name, text) in &corpus {
    let url = if name.contains("://") { name.to_string() } else { format!("file:///{}", name.trim_start_matches('/')) };
    let Ok(spec) = ModuleSpecifier::parse(&url) else { continue };
    let mt = deno_graph::MediaType::from_specifier(&spec);
    use deno_graph::MediaType::*;
    if !matches!(mt, JavaScript | Mjs | Cjs | Jsx | TypeScript | Mts | Cts | Dts | Dmts | Dcts | Tsx) {
      continue;
    }
    let Ok(info) = deno_graph::ast::ParserModuleAnalyzer::default().analyze_sync(&spec, Arc::from(text.as_str()), mt) else { continue };
    analysed += 1;
    for (e, s) in reported(&info, text) {
      report.evaluations += 1;
      let Some(s) = s else {
        report.fail("oracle", "range-outside-source", format!("corpus {}: {} {:?}", name, e.cat, e.text), json!({"corpus": name}));
        continue;
      };
      if e.text.starts_with("tpl:") || e.text == "expr" {
        continue;
      }
      let t = e.text.strip_prefix("str:").unwrap_or(&e.text);
      let quoted = s.len() >= 2 && matches!(s.chars().next(), Some('"') | Some('\'') | Some('`')) && s.chars().last() == s.chars().next();
      let ok = if quoted { s[1..s.len() - 1] == *t || s.contains('\\') } else { s == t };
      if !ok {
        report.fail(
          "oracle",
          &format!("range-does-not-cover-specifier:{}", e.cat.split(':').next().unwrap().split('+').next().unwrap()),
          format!("corpus {}: {} {:?} but the range covers {:?}", name, e.cat, t, s),
          json!({"corpus": name}),
        );
      }
    }
  }
  report.count_n("corpus-sources-analysed", analysed);
  report.exhaustive.push(format!("range checks on every analysable module source embedded in tests/specs ({} sources)", analysed));
  crate::deps::deps_part(&mut report, &mut batch, &mut rng, if tier == "thorough" { 30000 } else { 3000 });
  batch.finish(&mut report, "C08");
  report
}

fn dependency_includes(report: &mut Report, batch: &mut Batch, rng: &mut Rng, n: usize) {
  use crate::world::*;
  for i in 0..n {
    let mut wr = rng.fork();
    let cfg = GenCfg { min_specs: 3, max_specs: 6, ..Default::default() };
    let w = gen_world(&mut wr, &cfg);
    let loader = ScriptedLoader::new(&w);
    let Ok(g) = crate::build::try_build_world(&w, &loader) else { continue };
    for m in g.modules() {
      let deno_graph::Module::Js(js) = m else { continue };
      let lines = js.source.text.lines().count().min(12);
      for dep in js.dependencies.values() {
        let imports: Vec<String> = dep
          .imports
          .iter()
          .map(|im| format!("({} {} {} {})", im.specifier_range.range.start.line, im.specifier_range.range.start.character, im.specifier_range.range.end.line, im.specifier_range.range.end.character))
          .collect();
        let ty = match dep.maybe_type.maybe_range() {
          Some(r) => format!("({} {} {} {})", r.range.start.line, r.range.start.character, r.range.end.line, r.range.end.character),
          None => "-".to_string(),
        };
        for _ in 0..4 {
          let (pl, pc) = if rng.chance(1, 2) && !dep.imports.is_empty() {
            let r = &dep.imports[rng.below(dep.imports.len())].specifier_range.range;
            (r.start.line, r.start.character + rng.below(r.end.character.saturating_sub(r.start.character) + 2))
          } else {
            (rng.below(lines + 1), rng.below(50))
          };
          let got = dep.includes(Position::new(pl, pc));
          batch.push(
            format!("(depincludes (ranges {}) {} {} {})", imports.join(" "), ty, pl, pc),
            got.map(|r| format!("{}:{}-{}:{}", r.range.start.line, r.range.start.character, r.range.end.line, r.range.end.character)).unwrap_or("none".into()),
            false,
          );
          report.evaluations += 1;
          // oracle: the answer holds the position; an answer exists when some import range holds it
          let any = dep.imports.iter().any(|im| im.specifier_range.range.includes(Position::new(pl, pc)));
          if any && got.is_none() {
            report.fail("oracle", "position-lookup-misses-containing-range", format!("position {}:{} lies in an import range of {:?} but includes() = None", pl, pc, dep.imports.iter().map(|i| i.specifier.clone()).collect::<Vec<_>>()), json!({"world": w.describe()}));
          }
          if let Some(r) = got {
            if !r.range.includes(Position::new(pl, pc)) {
              report.fail("oracle", "position-lookup-returns-range-not-containing", format!("{}:{} -> {:?}", pl, pc, r), json!({"world": w.describe()}));
            }
          }
        }
      }
    }
    let _ = i;
  }
}
