//! Abstraction of a `World` into the builder model's input, and of a built
//! graph + loader log into the model's canonical output.
use crate::build::*;
use crate::dump;
use crate::dump::Ctx;
use crate::world::*;
use deno_graph::Dependency;
use deno_graph::GraphImport;
use deno_graph::MediaType;
use deno_graph::Module;
use deno_graph::ModuleError;
use deno_graph::ModuleErrorKind;
use deno_graph::ModuleGraph;
use deno_graph::ModuleLoadError;
use deno_graph::ModuleSpecifier;
use deno_graph::Resolution;
use indexmap::IndexMap;
use std::collections::HashMap;
use std::sync::Arc;

pub fn attr_str(a: Option<&str>) -> &'static str {
  match a {
    None => "n",
    Some("json") => "json",
    Some("text") => "text",
    Some("bytes") => "bytes",
    Some("css") => "css",
    Some("yaml") | Some("toml") | Some("json5") | Some("jsonc") => "config",
    Some(_) => "other",
  }
}

pub fn bdep(ctx: &mut Ctx, text: &str, d: &Dependency) -> String {
  let t = ctx.texts.id(text);
  let c = dump::res(ctx, &d.maybe_code);
  let ty = dump::res(ctx, &d.maybe_type);
  let is_asset = d.imports.iter().all(|i| i.attributes.has_asset() || i.kind.is_source_phase());
  let sp = d.imports.iter().find(|i| i.kind.is_source_phase()).map(|i| ctx.ranges.id(&i.specifier_range.to_string()));
  format!(
    "(b {} {} {} {} {} {} {})",
    t,
    c,
    ty,
    d.is_dynamic as u8,
    attr_str(d.maybe_attribute_type.as_deref()),
    is_asset as u8,
    sp.map(|x| x.to_string()).unwrap_or("n".into())
  )
}

fn opt_res(ctx: &mut Ctx, r: Option<&Resolution>) -> String {
  match r {
    None => "-".into(),
    Some(r) => dump::res(ctx, r),
  }
}

/// the per-module analysis (an input of the model): real `parse_module` under the world's kind
pub fn content_sexp(ctx: &mut Ctx, w: &World, i: usize) -> Option<String> {
  let Resp::Module { final_spec, headers, .. } = &w.resp[i] else { return None };
  let final_url = &w.specs[*final_spec];
  let hdrs: Option<HashMap<String, String>> = headers.as_ref().map(|h| h.iter().cloned().collect());
  let (mt, charset) = deno_graph::source::resolve_media_type_and_charset_from_headers(final_url, hdrs.as_ref());
  let decodable = match charset {
    None => true,
    Some(cs) => deno_media_type::encoding::convert_to_utf8(b"", cs).is_ok(),
  };
  let content = w.content(i).unwrap();
  let scheme_file = final_url.scheme() == "file";
  let mut parsable = true;
  let mut wasm_ok = true;
  let mut deps_s = String::new();
  let mut td = "-".to_string();
  let mut sm = "-".to_string();
  let js_like = matches!(
    mt,
    MediaType::JavaScript
      | MediaType::Mjs
      | MediaType::Jsx
      | MediaType::TypeScript
      | MediaType::Mts
      | MediaType::Tsx
      | MediaType::Cjs
      | MediaType::Cts
      | MediaType::Dts
      | MediaType::Dmts
      | MediaType::Dcts
      | MediaType::Unknown
      | MediaType::Wasm
  );
  if js_like && decodable {
    // `parse_module` treats the module as a root: an unknown media type is assumed JavaScript, which
    // is exactly the case in which the builder analyses such content
    let r = block_on(deno_graph::parse_module(deno_graph::ParseModuleOptions {
      graph_kind: w.kind,
      specifier: final_url.clone(),
      maybe_headers: hdrs.clone(),
      mtime: None,
      content: Arc::from(content),
      file_system: &deno_graph::source::NullFileSystem,
      jsr_url_provider: Default::default(),
      maybe_resolver: None,
      module_analyzer: Default::default(),
    }));
    match r {
      Ok(Module::Js(js)) => {
        deps_s = js.dependencies.iter().map(|(t, d)| bdep(ctx, t, d)).collect::<Vec<_>>().join(" ");
        td = opt_res(ctx, js.maybe_types_dependency.as_ref().map(|t| &t.dependency));
        sm = opt_res(ctx, js.maybe_source_map_dependency.as_ref().map(|t| &t.dependency));
      }
      Ok(Module::Wasm(wm)) => {
        deps_s = wm.dependencies.iter().map(|(t, d)| bdep(ctx, t, d)).collect::<Vec<_>>().join(" ");
      }
      Ok(_) => {}
      Err(e) => match e.as_kind() {
        ModuleErrorKind::Parse { .. } => parsable = false,
        ModuleErrorKind::WasmParse { .. } => wasm_ok = false,
        _ => {}
      },
    }
  }
  Some(format!(
    "(c {:?} {} {} {} {} (deps {}) {} {})",
    mt, scheme_file as u8, decodable as u8, parsable as u8, wasm_ok as u8, deps_s, td, sm
  ))
}

pub fn world_sexp(ctx: &mut Ctx, w: &World, max_redirects: usize, lock: &[(ModuleSpecifier, String)]) -> String {
  let mut resp = vec![];
  let mut hashes = vec![];
  let mut content = vec![];
  for (i, s) in w.specs.iter().enumerate() {
    let k = ctx.spec(s);
    if let Resp::Module { .. } = &w.resp[i] {
      let hu = ctx.texts.id(&sha256_hex(&w.served(i, false).unwrap_or_default()));
      let hr = ctx.texts.id(&sha256_hex(&w.served(i, true).unwrap_or_default()));
      hashes.push(format!("({} {} {})", k, hu, hr));
    }
    let r = match &w.resp[i] {
      Resp::Module { final_spec, .. } => format!("(m {})", ctx.spec(&w.specs[*final_spec])),
      Resp::Redirect(t) => format!("(r {})", ctx.spec(&w.specs[*t])),
      Resp::External(t) => format!("(x {})", ctx.spec(&w.specs[*t])),
      Resp::Missing => "miss".to_string(),
      Resp::Error => "err".to_string(),
    };
    resp.push(format!("({} {})", k, r));
    if let Some(c) = content_sexp(ctx, w, i) {
      content.push(format!("({} {})", k, c));
    }
  }
  // classification of every specifier interned so far (targets outside the universe included)
  let mut wasm = vec![];
  let mut node = vec![];
  for (i, s) in ctx.specs.list.iter().enumerate() {
    if let Ok(u) = ModuleSpecifier::parse(s) {
      if MediaType::from_specifier(&u) == MediaType::Wasm {
        wasm.push(i.to_string());
      }
      if u.scheme() == "node" {
        node.push(i.to_string());
      }
    }
  }
  let mut locks = vec![];
  for (s, c) in lock {
    locks.push(format!("({} {})", ctx.spec(s), ctx.texts.id(c)));
  }
  if w.has_locker {
    for (i, _) in &w.lock {
      let c = w.locked_checksum(*i).unwrap();
      locks.push(format!("({} {})", ctx.spec(&w.specs[*i]), ctx.texts.id(&c)));
    }
  }
  let mut remote = vec![];
  for (i, s) in ctx.specs.list.iter().enumerate() {
    if s.starts_with("http://") || s.starts_with("https://") {
      remote.push(i.to_string());
    }
  }
  let reload: Vec<String> = w
    .reload_redirect
    .iter()
    .map(|(i, t)| format!("({} (r {}))", ctx.spec(&w.specs[*i]), ctx.spec(&w.specs[*t])))
    .collect();
  format!(
    "(world (resp {}) (content {}) (wasm {}) (node {}) {} (lock {}) (hashes {}) {} (remote {}) (reload {}))",
    resp.join(" "),
    content.join(" "),
    wasm.join(" "),
    node.join(" "),
    max_redirects,
    locks.join(" "),
    hashes.join(" "),
    w.has_locker as u8,
    remote.join(" "),
    reload.join(" ")
  )
}

pub fn opts_sexp(w: &World) -> String {
  format!(
    "(o {} {} {} {} {} {} {})",
    dump::kind_str(w.kind),
    w.opts.is_dynamic as u8,
    w.opts.skip_dynamic_deps as u8,
    w.opts.unstable_bytes as u8,
    w.opts.unstable_text as u8,
    w.opts.unstable_css as u8,
    w.opts.unstable_config as u8
  )
}

pub fn imports_sexp(ctx: &mut Ctx, w: &World) -> String {
  let mut out = vec![];
  for (referrer, imports) in &w.imports {
    let gi = GraphImport::new(referrer, imports.clone(), Default::default(), None);
    let r = ctx.spec(referrer);
    out.push(format!("({} {})", r, dump::deps(ctx, &gi.dependencies)));
  }
  out.join(" ")
}

pub fn build_request(ctx: &mut Ctx, w: &World, roots: &[usize], fuel: usize) -> String {
  // intern roots and import targets first so the wasm/node classification sees them
  let roots_s: Vec<String> = roots.iter().map(|r| ctx.spec(&w.specs[*r]).to_string()).collect();
  let imports = imports_sexp(ctx, w);
  // first pass interns every specifier the contents mention; the second classifies all of them
  let _ = world_sexp(ctx, w, 10, &[]);
  let world = world_sexp(ctx, w, 10, &[]);
  format!("(build {} {} (roots {}) (imports {}) {})", world, opts_sexp(w), roots_s.join(" "), imports, fuel)
}

// ---- canonical output of the implementation ----------------------------------

pub fn show_res(ctx: &mut Ctx, r: &Resolution) -> String {
  match r {
    Resolution::None => "n".into(),
    Resolution::Ok(ok) => format!("o{}@{}", ctx.spec(&ok.specifier), ctx.ranges.id(&ok.range.to_string())),
    Resolution::Err(e) => format!("e{}", ctx.errors.id(&e.to_string_with_range())),
  }
}

pub fn show_deps(ctx: &mut Ctx, deps: &IndexMap<String, Dependency>) -> String {
  deps
    .iter()
    .map(|(t, d)| {
      format!("{},{},{},{}", ctx.texts.id(t), show_res(ctx, &d.maybe_code), show_res(ctx, &d.maybe_type), d.is_dynamic as u8)
    })
    .collect::<Vec<_>>()
    .join(";")
}

pub fn err_kind(e: &ModuleError) -> (String, Option<String>) {
  match e.as_kind() {
    ModuleErrorKind::Missing { maybe_referrer, .. } => ("missing".into(), maybe_referrer.as_ref().map(|r| r.to_string())),
    ModuleErrorKind::Load { maybe_referrer, err, .. } => {
      let k = match err {
        ModuleLoadError::Loader(_) => "loader",
        ModuleLoadError::Decode(_) => "decode",
        ModuleLoadError::TooManyRedirects => "tooManyRedirects",
        ModuleLoadError::HttpsChecksumIntegrity(c) => {
          if c.actual.starts_with("Redirect to ") { "checksumRedirect" } else { "checksum" }
        }
        ModuleLoadError::Jsr(_) => "jsr",
        ModuleLoadError::Npm(_) => "npm",
      };
      (k.into(), maybe_referrer.as_ref().map(|r| r.to_string()))
    }
    ModuleErrorKind::Parse { .. } => ("parse".into(), None),
    ModuleErrorKind::WasmParse { .. } => ("wasmParse".into(), None),
    ModuleErrorKind::UnsupportedMediaType { maybe_referrer, .. } => {
      ("unsupportedMedia".into(), maybe_referrer.as_ref().map(|r| r.to_string()))
    }
    ModuleErrorKind::InvalidTypeAssertion { referrer, .. } => ("invalidTypeAssertion".into(), Some(referrer.to_string())),
    ModuleErrorKind::UnsupportedImportAttributeType { referrer, .. } => ("unsupportedAttr".into(), Some(referrer.to_string())),
    ModuleErrorKind::UnsupportedModuleTypeForSourcePhaseImport { referrer, .. } => ("sourcePhase".into(), Some(referrer.to_string())),
    ModuleErrorKind::MissingDynamic { referrer, .. } => ("missingDynamic".into(), Some(referrer.to_string())),
  }
}

pub fn show_slots(ctx: &mut Ctx, g: &ModuleGraph) -> Vec<String> {
  let mut out: Vec<(usize, String)> = vec![];
  for (k, slot, is_asset) in g.verif_slots() {
    let key = ctx.spec(k);
    let s = match slot {
      None => format!("pending:{}", is_asset as u8),
      Some(Ok(Module::Js(js))) => {
        let deps = show_deps(ctx, &js.dependencies);
        let td = match &js.maybe_types_dependency {
          None => "-".to_string(),
          Some(td) => show_res(ctx, &td.dependency),
        };
        let sm = match &js.maybe_source_map_dependency {
          None => "-".to_string(),
          Some(sm) => show_res(ctx, &sm.dependency),
        };
        format!("js:{:?}:[{}]:{}:{}", js.media_type, deps, td, sm)
      }
      Some(Ok(Module::Wasm(wm))) => format!("wasm:[{}]", show_deps(ctx, &wm.dependencies)),
      Some(Ok(Module::Json(_))) => "json".into(),
      Some(Ok(Module::Node(_))) => "node".into(),
      Some(Ok(Module::Npm(_))) => "npm".into(),
      Some(Ok(Module::External(x))) => format!("ext:{}", x.was_asset_load as u8),
      Some(Err(e)) => {
        let (kind, referrer) = err_kind(e);
        format!(
          "err:{}:{}:{}",
          kind,
          ctx.spec(e.specifier()),
          referrer.map(|r| ctx.ranges.id(&r).to_string()).unwrap_or("n".into())
        )
      }
    };
    out.push((key, format!("S{}={}", key, s)));
  }
  out.sort_by_key(|x| x.0);
  out.into_iter().map(|x| x.1).collect()
}

pub fn show_redirects(ctx: &mut Ctx, g: &ModuleGraph) -> Vec<String> {
  let mut out: Vec<(usize, String)> = vec![];
  for (a, b) in &g.redirects {
    let ka = ctx.spec(a);
    let kb = ctx.spec(b);
    out.push((ka, format!("R{}>{}", ka, kb)));
  }
  out.sort_by_key(|x| x.0);
  out.into_iter().map(|x| x.1).collect()
}

pub fn show_log(ctx: &mut Ctx, log: &[LoadCall]) -> Vec<String> {
  log
    .iter()
    .map(|c| {
      let s = ctx.specs.id(&c.specifier);
      format!(
        "L{}:{}{}:{}:{}",
        s,
        if c.ensure_cached { "c" } else { "l" },
        if c.cache_setting == "reload" { "!" } else { "" },
        c.in_dynamic_branch as u8,
        c.checksum.as_ref().map(|x| ctx.texts.id(x).to_string()).unwrap_or("n".into())
      )
    })
    .collect()
}

pub fn show_graph(ctx: &mut Ctx, g: &ModuleGraph, log: &[LoadCall]) -> String {
  show_graph_with_writes(ctx, g, log, &[])
}

pub fn show_graph_with_writes(ctx: &mut Ctx, g: &ModuleGraph, log: &[LoadCall], writes: &[(String, String)]) -> String {
  let mut v = show_slots(ctx, g);
  v.extend(show_redirects(ctx, g));
  v.extend(show_log(ctx, log));
  for (s, c) in writes {
    v.push(format!("W{}={}", ctx.specs.id(s), ctx.texts.id(c)));
  }
  v.join(" ")
}
