//! Module worlds: a finite universe of specifiers, what the loader answers for
//! each, and rendered sources exercising every dependency-bearing form.
use crate::rng::Rng;
use deno_graph::GraphKind;
use deno_graph::ModuleSpecifier;
use deno_graph::source::CacheSetting;
use deno_graph::source::LoadError;
use deno_graph::source::LoadFuture;
use deno_graph::source::LoadOptions;
use deno_graph::source::LoadResponse;
use deno_graph::source::Loader;
use std::cell::RefCell;
use std::collections::HashMap;
use std::sync::Arc;

#[derive(Clone, Debug, PartialEq, Eq)]
pub enum Form {
  SideEffect,   // import "x";
  Namespace,    // import * as a from "x";
  ExportAll,    // export * from "x";
  ImportType,   // import type { T } from "x";      (typed sources only)
  ExportType,   // export type { T } from "x";      (typed sources only)
  Dynamic,      // await import("x");
  RefPath,      // /// <reference path="x" />
  RefTypes,     // /// <reference types="x" />
  TsTypes(String), // // @ts-types="y"  +  import * as a from "x";
  DenoTypes(String), // // @deno-types="y"  +  import * as a from "x";   (the older pragma)
  DenoTypesBare(String), // // @deno-types=y  +  import * as a from "x";  (no quotes)
  SelfTypes,    // // @ts-self-types="x"             (untyped sources only)
  JsDoc,        // /** @type {import("x").T} */      (untyped sources only)
  With(String), // import a from "x" with { type: "..." };
  DynamicWith(String), // await import("x", { with: { type: "..." } });
  ImportEquals, // import a = require("x");          (typed sources only)
  SourceMap,    // //# sourceMappingURL=x
  SourcePhase,  // import source w from "x";
  JsxImportSource, // /** @jsxImportSource x */  (jsx/tsx only)
}

#[derive(Clone, Debug)]
pub struct Item {
  pub form: Form,
  pub text: String,
}

#[derive(Clone, Debug, PartialEq, Eq)]
pub enum Broken {
  No,
  Parse,  // unparsable source text
  Decode, // bytes that do not decode under the declared charset
}

#[derive(Clone, Debug)]
pub enum Resp {
  Module {
    /// index of the final specifier (normally the entry itself)
    final_spec: usize,
    headers: Option<Vec<(String, String)>>,
    items: Vec<Item>,
    broken: Broken,
    /// raw content override (json text, wasm bytes, ...)
    raw: Option<Vec<u8>>,
  },
  Redirect(usize),
  External(usize),
  Missing,
  Error,
}

#[derive(Clone, Debug, Default)]
pub struct Opts {
  pub is_dynamic: bool,
  pub skip_dynamic_deps: bool,
  pub unstable_bytes: bool,
  pub unstable_text: bool,
  pub unstable_css: bool,
  pub unstable_config: bool,
}

#[derive(Clone, Debug)]
pub struct World {
  pub specs: Vec<ModuleSpecifier>,
  pub resp: Vec<Resp>,
  pub roots: Vec<usize>,
  /// configured imports: (referrer, specifier texts)
  pub imports: Vec<(ModuleSpecifier, Vec<String>)>,
  pub kind: GraphKind,
  pub opts: Opts,
  /// lockfile contents for remote entries: (entry, checksum matches the served bytes?)
  pub lock: Vec<(usize, bool)>,
  /// entries whose cached bytes were tampered with (a cache-bypassing reload serves the real bytes)
  pub tampered: Vec<usize>,
  pub has_locker: bool,
  /// entries for which a cache-bypassing load answers a redirect (the server changed since the
  /// cached copy was made): (entry, redirect target)
  pub reload_redirect: Vec<(usize, usize)>,
}

impl Default for World {
  fn default() -> Self {
    World {
      specs: vec![],
      resp: vec![],
      roots: vec![],
      imports: vec![],
      kind: GraphKind::All,
      opts: Opts::default(),
      lock: vec![],
      tampered: vec![],
      has_locker: false,
      reload_redirect: vec![],
    }
  }
}

pub fn sha256_hex(bytes: &[u8]) -> String {
  deno_graph::source::LoaderChecksum::r#gen(bytes)
}

pub const EXTS: &[&str] = &[
  "ts", "ts", "ts", "js", "js", "mjs", "tsx", "jsx", "d.ts", "mts", "json", "json", "txt", "cjs",
  "cts", "css", "wasm", "",
];

pub fn is_typed_ext(ext: &str) -> bool {
  matches!(ext, "ts" | "tsx" | "d.ts" | "mts" | "cts")
}
pub fn is_untyped_js_ext(ext: &str) -> bool {
  matches!(ext, "js" | "mjs" | "jsx" | "cjs")
}
pub fn is_js_like_ext(ext: &str) -> bool {
  is_typed_ext(ext) || is_untyped_js_ext(ext)
}

pub fn ext_of(spec: &ModuleSpecifier) -> String {
  let p = spec.path();
  let name = p.rsplit('/').next().unwrap_or("");
  if name.ends_with(".d.ts") {
    return "d.ts".into();
  }
  match name.rsplit_once('.') {
    Some((_, e)) => e.to_string(),
    None => "".into(),
  }
}

/// smallest valid wasm module, optionally with one import section entry per (module, name)
pub fn wasm_bytes(imports: &[String]) -> Vec<u8> {
  let mut out = vec![0x00, 0x61, 0x73, 0x6D, 0x01, 0x00, 0x00, 0x00];
  if imports.is_empty() {
    return out;
  }
  // type section: one func type () -> ()
  out.extend([0x01, 0x04, 0x01, 0x60, 0x00, 0x00]);
  // import section
  let mut body = vec![];
  leb(&mut body, imports.len() as u64);
  for (i, m) in imports.iter().enumerate() {
    leb(&mut body, m.len() as u64);
    body.extend(m.as_bytes());
    let field = format!("f{}", i);
    leb(&mut body, field.len() as u64);
    body.extend(field.as_bytes());
    body.push(0x00); // func
    body.push(0x00); // type index 0
  }
  out.push(0x02);
  leb(&mut out, body.len() as u64);
  out.extend(body);
  out
}
fn leb(out: &mut Vec<u8>, mut v: u64) {
  loop {
    let b = (v & 0x7f) as u8;
    v >>= 7;
    if v == 0 {
      out.push(b);
      break;
    }
    out.push(b | 0x80);
  }
}

/// Render the source text of a JS/TS-like module from its items.
pub fn render(ext: &str, items: &[Item], broken: &Broken) -> Vec<u8> {
  let mut top = String::new(); // triple-slash and pragma comments must lead
  let mut body = String::new();
  let mut tail = String::new();
  let mut n = 0usize;
  for it in items {
    n += 1;
    let q = |s: &str| format!("\"{}\"", s);
    match &it.form {
      Form::SideEffect => body.push_str(&format!("import {};\n", q(&it.text))),
      Form::Namespace => body.push_str(&format!("import * as ns{} from {};\n", n, q(&it.text))),
      Form::ExportAll => body.push_str(&format!("export * from {};\n", q(&it.text))),
      Form::ImportType => {
        body.push_str(&format!("import type {{ T{} }} from {};\n", n, q(&it.text)))
      }
      Form::ExportType => {
        body.push_str(&format!("export type {{ U{} }} from {};\n", n, q(&it.text)))
      }
      Form::Dynamic => body.push_str(&format!("const d{} = await import({});\n", n, q(&it.text))),
      Form::RefPath => top.push_str(&format!("/// <reference path={} />\n", q(&it.text))),
      Form::RefTypes => top.push_str(&format!("/// <reference types={} />\n", q(&it.text))),
      Form::TsTypes(t) => body.push_str(&format!(
        "// @ts-types={}\nimport * as tt{} from {};\n",
        q(t),
        n,
        q(&it.text)
      )),
      Form::DenoTypes(t) => body.push_str(&format!(
        "// @deno-types={}\nimport * as dt{} from {};\n",
        q(t),
        n,
        q(&it.text)
      )),
      Form::DenoTypesBare(t) => body.push_str(&format!(
        "// @deno-types={}\nimport * as db{} from {};\n",
        t,
        n,
        q(&it.text)
      )),
      Form::SelfTypes => top.push_str(&format!("// @ts-self-types={}\n", q(&it.text))),
      Form::JsDoc => body.push_str(&format!(
        "/** @type {{import({}).J{}}} */\nconst j{} = null;\n",
        q(&it.text),
        n,
        n
      )),
      Form::With(t) => body.push_str(&format!(
        "import w{} from {} with {{ type: \"{}\" }};\n",
        n,
        q(&it.text),
        t
      )),
      Form::DynamicWith(t) => body.push_str(&format!(
        "const dw{} = await import({}, {{ with: {{ type: \"{}\" }} }});\n",
        n,
        q(&it.text),
        t
      )),
      Form::ImportEquals => {
        body.push_str(&format!("import ie{} = require({});\n", n, q(&it.text)))
      }
      Form::SourceMap => tail = format!("//# sourceMappingURL={}\n", it.text),
      Form::SourcePhase => {
        body.push_str(&format!("import source sp{} from {};\n", n, q(&it.text)))
      }
      Form::JsxImportSource => top.push_str(&format!("/** @jsxImportSource {} */\n", it.text)),
    }
  }
  if matches!(ext, "jsx" | "tsx") {
    body.push_str("export const el = <div/>;\n");
  } else {
    body.push_str("export const v = 1;\n");
  }
  let mut text = format!("{}{}{}", top, body, tail);
  match broken {
    Broken::No => text.into_bytes(),
    Broken::Parse => {
      text.push_str("\nexport const = ;;; ((\n");
      text.into_bytes()
    }
    Broken::Decode => {
      // invalid UTF-16 is impossible to reject, so use an unsupported charset via
      // header instead; callers set the header. Content is left as is.
      text.into_bytes()
    }
  }
}

impl World {
  /// a loader that follows redirects itself answers the same module under the final specifier:
  /// make every `final_spec != entry` answer mirror the final entry's own answer
  pub fn make_consistent(&mut self) {
    let total = self.specs.len();
    for i in 0..total {
      if let Resp::Module { final_spec, .. } = &self.resp[i] {
        let f = *final_spec;
        if f != i {
          let target = self.resp[f].clone();
          match target {
            Resp::Module { final_spec: ff, .. } if ff == f => self.resp[i] = target,
            _ => {
              if let Resp::Module { final_spec, .. } = &mut self.resp[i] {
                *final_spec = i;
              }
            }
          }
        }
      }
    }
  }

  pub fn spec_index(&self, s: &ModuleSpecifier) -> Option<usize> {
    self.specs.iter().position(|x| x == s)
  }

  pub fn content(&self, i: usize) -> Option<Vec<u8>> {
    match &self.resp[i] {
      Resp::Module { items, broken, raw, final_spec, .. } => {
        if let Some(r) = raw {
          return Some(r.clone());
        }
        let ext = ext_of(&self.specs[*final_spec]);
        Some(render(&ext, items, broken))
      }
      _ => None,
    }
  }

  /// bytes served for entry `i`: the cache holds tampered bytes for tampered entries
  pub fn served(&self, i: usize, reload: bool) -> Option<Vec<u8>> {
    let mut c = self.content(i)?;
    if self.tampered.contains(&i) && !reload {
      c.extend(b"\n// tampered");
    }
    Some(c)
  }

  /// the checksum the lockfile holds for entry `i`
  pub fn locked_checksum(&self, i: usize) -> Option<String> {
    self.lock.iter().find(|(k, _)| *k == i).map(|(_, matching)| {
      if *matching { sha256_hex(&self.content(i).unwrap_or_default()) } else { "0000000000000000000000000000000000000000000000000000000000000bad".to_string() }
    })
  }

  pub fn describe(&self) -> serde_json::Value {
    let mut entries = vec![];
    for (i, s) in self.specs.iter().enumerate() {
      let r = match &self.resp[i] {
        Resp::Module { final_spec, headers, items, broken, raw } => serde_json::json!({
          "kind": "module",
          "final": self.specs[*final_spec].as_str(),
          "headers": headers,
          "broken": format!("{:?}", broken),
          "items": items.iter().map(|it| format!("{:?} {}", it.form, it.text)).collect::<Vec<_>>(),
          "source": raw.as_ref().map(|r| String::from_utf8_lossy(r).to_string())
              .or_else(|| self.content(i).map(|c| String::from_utf8_lossy(&c).to_string())),
        }),
        Resp::Redirect(t) => serde_json::json!({"kind": "redirect", "to": self.specs[*t].as_str()}),
        Resp::External(t) => serde_json::json!({"kind": "external", "final": self.specs[*t].as_str()}),
        Resp::Missing => serde_json::json!({"kind": "missing"}),
        Resp::Error => serde_json::json!({"kind": "error"}),
      };
      entries.push(serde_json::json!({"specifier": s.as_str(), "response": r}));
    }
    serde_json::json!({
      "kind": format!("{:?}", self.kind),
      "roots": self.roots.iter().map(|r| self.specs[*r].as_str()).collect::<Vec<_>>(),
      "imports": self.imports.iter().map(|(r, l)| serde_json::json!({"referrer": r.as_str(), "imports": l})).collect::<Vec<_>>(),
      "opts": format!("{:?}", self.opts),
      "lock": self.lock.iter().map(|(i, m)| format!("{} {}", self.specs[*i], if *m { "matching" } else { "mismatching" })).collect::<Vec<_>>(),
      "tampered_cache": self.tampered.iter().map(|i| self.specs[*i].to_string()).collect::<Vec<_>>(),
      "locker": self.has_locker,
      "universe": entries,
    })
  }
}

#[derive(Clone, Debug)]
pub struct GenCfg {
  pub min_specs: usize,
  pub max_specs: usize,
  /// weight (out of 100) of non-module responses
  pub p_redirect: usize,
  pub p_missing: usize,
  pub p_error: usize,
  pub p_external: usize,
  pub p_broken: usize,
  pub max_items: usize,
  pub remote: bool,
  /// force a redirect chain of this many hops somewhere in the world
  pub chain: Option<usize>,
  /// force a redirect cycle of this length
  pub cycle: Option<usize>,
  pub allow_self_redirect: bool,
  /// allow a module response whose final specifier names an entry that answers differently when
  /// requested directly (an inconsistent loader); off by default
  pub allow_inconsistent_finals: bool,
}

impl Default for GenCfg {
  fn default() -> Self {
    GenCfg {
      min_specs: 2,
      max_specs: 9,
      p_redirect: 12,
      p_missing: 7,
      p_error: 4,
      p_external: 3,
      p_broken: 5,
      max_items: 5,
      remote: true,
      chain: None,
      cycle: None,
      allow_self_redirect: false,
      allow_inconsistent_finals: false,
    }
  }
}

fn origin_of(rng: &mut Rng, remote: bool) -> &'static str {
  if !remote {
    return "file:///w/";
  }
  match rng.below(10) {
    0..=3 => "file:///w/",
    4..=7 => "https://h.example/w/",
    8 => "http://h.example/w/",
    _ => "https://other.example/w/",
  }
}

/// the text used to import `to` from `from`: relative when same origin, else absolute
pub fn import_text(rng: &mut Rng, from: &ModuleSpecifier, to: &ModuleSpecifier) -> String {
  let same_origin = from.scheme() == to.scheme() && from.host_str() == to.host_str();
  if same_origin && rng.chance(4, 5) {
    let name = to.path().rsplit('/').next().unwrap();
    format!("./{}", name)
  } else {
    to.as_str().to_string()
  }
}

pub fn gen_world(rng: &mut Rng, cfg: &GenCfg) -> World {
  let mut cfg = cfg.clone();
  if cfg.chain == Some(0) {
    cfg.chain = None;
  }
  if cfg.cycle == Some(0) {
    cfg.cycle = None;
  }
  let cfg = &cfg;
  let n = rng.range(cfg.min_specs, cfg.max_specs);
  let mut specs: Vec<ModuleSpecifier> = vec![];
  for i in 0..n {
    let origin = origin_of(rng, cfg.remote);
    let ext = *rng.pick(EXTS);
    let name = if ext.is_empty() { format!("m{}", i) } else { format!("m{}.{}", i, ext) };
    specs.push(ModuleSpecifier::parse(&format!("{}{}", origin, name)).unwrap());
  }
  // extra specifiers used only as chain / cycle members
  let mut forced: Vec<(usize, Resp)> = vec![];
  if let Some(len) = cfg.chain {
    // r0 -> r1 -> ... -> r_len (a module or whatever the generator picks for it)
    let origin = if cfg.remote { "https://h.example/w/" } else { "file:///w/" };
    let base = specs.len();
    for k in 0..len {
      specs.push(ModuleSpecifier::parse(&format!("{}r{}.ts", origin, k)).unwrap());
      forced.push((base + k, Resp::Redirect(base + k + 1)));
    }
    specs.push(ModuleSpecifier::parse(&format!("{}r{}.ts", origin, len)).unwrap());
  }
  if let Some(len) = cfg.cycle {
    let origin = if cfg.remote { "https://h.example/w/" } else { "file:///w/" };
    let base = specs.len();
    for k in 0..len {
      specs.push(ModuleSpecifier::parse(&format!("{}c{}.ts", origin, k)).unwrap());
      forced.push((base + k, Resp::Redirect(base + (k + 1) % len)));
    }
  }
  let total = specs.len();
  let kind = match rng.below(5) {
    0 | 1 => GraphKind::All,
    2 | 3 => GraphKind::CodeOnly,
    _ => GraphKind::TypesOnly,
  };
  let mut attrs = canonical_attrs(rng, &specs);
  // pass 1: what kind of answer each entry gives (module contents are generated afterwards, once
  // the attribute every importer must use for a target is known through redirect chains)
  let mut resp: Vec<Option<Resp>> = vec![];
  for i in 0..total {
    if let Some((_, r)) = forced.iter().find(|(k, _)| *k == i) {
      resp.push(Some(r.clone()));
      continue;
    }
    let roll = rng.below(100);
    let mut acc = cfg.p_redirect;
    if roll < acc {
      let mut t = rng.below(total);
      if t == i && !cfg.allow_self_redirect {
        // a loader answering "redirect to the very specifier requested" is explored by C03
        t = (i + 1) % total;
      }
      if t == i && !cfg.allow_self_redirect {
        resp.push(Some(Resp::Missing));
      } else {
        resp.push(Some(Resp::Redirect(t)));
      }
      continue;
    }
    acc += cfg.p_missing;
    if roll < acc {
      resp.push(Some(Resp::Missing));
      continue;
    }
    acc += cfg.p_error;
    if roll < acc {
      resp.push(Some(Resp::Error));
      continue;
    }
    acc += cfg.p_external;
    if roll < acc {
      resp.push(Some(Resp::External(i)));
      continue;
    }
    resp.push(None);
  }
  // a redirecting specifier must be imported with the attribute of where it ends up
  for i in 0..total {
    let mut cur = i;
    for _ in 0..20 {
      match &resp[cur] {
        Some(Resp::Redirect(t)) => cur = *t,
        _ => break,
      }
    }
    if cur != i {
      attrs[i] = attrs[cur].clone();
    }
  }
  let resp: Vec<Resp> = (0..total)
    .map(|i| match &resp[i] {
      Some(r) => r.clone(),
      None => gen_module(rng, cfg, &specs, i, &attrs),
    })
    .collect();
  let mut resp = resp;
  // roots: 1-3 distinct
  let mut roots = vec![];
  let nroots = rng.range(1, 3.min(total));
  while roots.len() < nroots {
    let r = rng.below(total);
    if !roots.contains(&r) {
      roots.push(r);
    }
  }
  // make sure forced chains/cycles are reachable: import them from the first root when it is a module
  if cfg.chain.is_some() || cfg.cycle.is_some() {
    let root = roots[0];
    let targets: Vec<usize> = forced.iter().map(|(k, _)| *k).collect();
    let from = specs[root].clone();
    let ext = ext_of(&specs[root]);
    if !is_js_like_ext(&ext) || !matches!(resp[root], Resp::Module { broken: Broken::No, raw: None, .. }) {
      resp[root] = Resp::Module { final_spec: root, headers: None, items: vec![], broken: Broken::No, raw: None };
      if !is_js_like_ext(&ext) {
        // rename the root to a .ts file
        let origin = if cfg.remote { "https://h.example/w/" } else { "file:///w/" };
        specs[root] = ModuleSpecifier::parse(&format!("{}root{}.ts", origin, root)).unwrap();
      }
    }
    let from = if specs[root] != from { specs[root].clone() } else { from };
    if let Resp::Module { items, .. } = &mut resp[root] {
      // first member of the chain, and first of the cycle
      let mut firsts = vec![];
      if let Some(len) = cfg.chain {
        firsts.push(targets[0]);
        let _ = len;
      }
      if let Some(_len) = cfg.cycle {
        let off = cfg.chain.unwrap_or(0);
        firsts.push(targets[off]);
      }
      for t in firsts {
        let form = if rng.chance(1, 4) { Form::Dynamic } else { Form::Namespace };
        items.push(Item { form, text: import_text(rng, &from, &specs[t]) });
      }
    }
  }
  // a loader that follows redirects itself answers the same module under the final specifier
  if !cfg.allow_inconsistent_finals {
    for i in 0..total {
      if let Resp::Module { final_spec, .. } = &resp[i] {
        let f = *final_spec;
        if f != i {
          let target = resp[f].clone();
          match target {
            Resp::Module { final_spec: ff, .. } if ff == f => resp[i] = target,
            _ => {
              if let Resp::Module { final_spec, .. } = &mut resp[i] {
                *final_spec = i;
              }
            }
          }
        }
      }
    }
  }
  let mut imports = vec![];
  if rng.chance(1, 4) {
    let referrer = ModuleSpecifier::parse("file:///w/deno.json").unwrap();
    let k = rng.range(1, 2);
    let mut l = vec![];
    for _ in 0..k {
      let t = rng.below(total);
      l.push(import_text(rng, &referrer, &specs[t]));
    }
    imports.push((referrer, l));
  }
  let opts = Opts {
    is_dynamic: rng.chance(1, 10),
    skip_dynamic_deps: rng.chance(1, 8),
    unstable_bytes: rng.chance(1, 2),
    unstable_text: rng.chance(1, 2),
    unstable_css: rng.chance(1, 4),
    unstable_config: rng.chance(1, 6),
  };
  World { specs, resp, roots, imports, kind, opts, ..Default::default() }
}

/// the `type` attribute every importer uses for a target (the proviso of C01/C17/C19)
fn canonical_attrs(rng: &mut Rng, specs: &[ModuleSpecifier]) -> Vec<Option<String>> {
  specs
    .iter()
    .map(|s| {
      let ext = ext_of(s);
      match ext.as_str() {
        "json" => if rng.chance(3, 4) { Some("json".to_string()) } else { None },
        "txt" | "css" => if rng.chance(1, 2) { Some((*rng.pick(&["text", "bytes", "css"])).to_string()) } else { None },
        _ => if rng.chance(1, 30) { Some((*rng.pick(&["json", "text", "bytes", "yaml", "bogus"])).to_string()) } else { None },
      }
    })
    .collect()
}

fn gen_module(rng: &mut Rng, cfg: &GenCfg, specs: &[ModuleSpecifier], i: usize, attrs: &[Option<String>]) -> Resp {
  let total = specs.len();
  let from = &specs[i];
  let ext = ext_of(from);
  let remote = matches!(from.scheme(), "http" | "https");
  let mut headers: Option<Vec<(String, String)>> = None;
  if remote && rng.chance(1, 4) {
    let ct = *rng.pick(&[
      "application/typescript",
      "application/javascript",
      "text/javascript; charset=utf-8",
      "application/json",
      "text/plain",
      "text/tsx",
    ]);
    headers = Some(vec![("content-type".to_string(), ct.to_string())]);
  }
  if ext == "json" {
    return Resp::Module {
      final_spec: i,
      headers,
      items: vec![],
      broken: Broken::No,
      raw: Some(b"{\"a\": 1}".to_vec()),
    };
  }
  if ext == "wasm" {
    let k = rng.below(3);
    let mut l = vec![];
    for _ in 0..k {
      let t = rng.below(total);
      l.push(import_text(rng, from, &specs[t]));
    }
    let raw = if rng.chance(1, 10) { b"not wasm".to_vec() } else { wasm_bytes(&l) };
    return Resp::Module { final_spec: i, headers, items: vec![], broken: Broken::No, raw: Some(raw) };
  }
  if ext == "css" || ext == "txt" {
    return Resp::Module {
      final_spec: i,
      headers,
      items: vec![],
      broken: Broken::No,
      raw: Some(b"body { }".to_vec()),
    };
  }
  let typed = is_typed_ext(&ext);
  let k = rng.below(cfg.max_items + 1);
  let mut items = vec![];
  for _ in 0..k {
    let t = rng.below(total);
    let text = import_text(rng, from, &specs[t]);
    let text2 = {
      let t2 = rng.below(total);
      import_text(rng, from, &specs[t2])
    };
    let target_ext = ext_of(&specs[t]);
    let _ = &target_ext;
    // importers agree on the target's `type` attribute, except for a deliberate minority
    let violate = rng.chance(1, 14);
    if let (Some(a), false) = (&attrs[t], violate) {
      let form = if rng.chance(1, 4) { Form::DynamicWith(a.clone()) } else { Form::With(a.clone()) };
      items.push(Item { form, text });
      continue;
    }
    let form = match rng.below(if violate { 30 } else { 23 }) {
      0..=5 => Form::Namespace,
      6..=7 => Form::SideEffect,
      8..=9 => Form::ExportAll,
      10..=12 => {
        if typed { Form::ImportType } else { Form::JsDoc }
      }
      13 => {
        if typed { Form::ExportType } else { Form::SelfTypes }
      }
      14..=17 => Form::Dynamic,
      18 => Form::RefPath,
      19 => Form::RefTypes,
      20 => Form::TsTypes(text2),
      21 => {
        if typed && ext != "d.ts" { Form::ImportEquals } else { Form::Namespace }
      }
      22 => {
        if matches!(ext.as_str(), "jsx" | "tsx") {
          Form::JsxImportSource
        } else if target_ext == "wasm" || rng.chance(1, 5) {
          Form::SourcePhase
        } else {
          Form::SourceMap
        }
      }
      23..=25 => Form::With((*rng.pick(&["json", "text", "bytes", "css", "yaml", "bogus"])).to_string()),
      26 => Form::DynamicWith((*rng.pick(&["json", "text", "bytes"])).to_string()),
      27 => Form::SourceMap,
      28 => Form::SourcePhase,
      _ => Form::Dynamic,
    };
    items.push(Item { form, text });
  }
  if rng.chance(1, 12) && remote {
    let t = rng.below(total);
    let h = headers.get_or_insert_with(Vec::new);
    h.push(("x-typescript-types".to_string(), import_text(rng, from, &specs[t])));
  }
  let broken = if rng.below(100) < cfg.p_broken {
    if remote && rng.chance(1, 2) {
      let h = headers.get_or_insert_with(Vec::new);
      h.retain(|(k, _)| k != "content-type");
      h.push(("content-type".to_string(), "application/typescript; charset=bogus-charset".to_string()));
      Broken::Decode
    } else {
      Broken::Parse
    }
  } else {
    Broken::No
  };
  // a module answered under a different final specifier (implicit redirect)
  let final_spec = if rng.chance(1, 25) { rng.below(total) } else { i };
  Resp::Module { final_spec, headers, items, broken, raw: None }
}

// ---------------------------------------------------------------------------

#[derive(Clone, Debug, PartialEq, Eq)]
pub struct LoadCall {
  pub specifier: String,
  pub ensure_cached: bool,
  pub cache_setting: &'static str,
  pub checksum: Option<String>,
  pub in_dynamic_branch: bool,
  pub was_dynamic_root: bool,
}

#[derive(Debug)]
struct HarnessLoadError(String);
impl std::fmt::Display for HarnessLoadError {
  fn fmt(&self, f: &mut std::fmt::Formatter<'_>) -> std::fmt::Result {
    write!(f, "{}", self.0)
  }
}
impl std::error::Error for HarnessLoadError {}
impl deno_error::JsErrorClass for HarnessLoadError {
  fn get_class(&self) -> std::borrow::Cow<'static, str> {
    "Error".into()
  }
  fn get_message(&self) -> std::borrow::Cow<'static, str> {
    self.0.clone().into()
  }
  fn get_additional_properties(&self) -> deno_error::AdditionalProperties {
    Box::new(std::iter::empty())
  }
  fn get_ref(&self) -> &(dyn std::error::Error + Send + Sync + 'static) {
    self
  }
}

pub fn other_load_error(msg: &str) -> LoadError {
  LoadError::Other(Arc::new(HarnessLoadError(msg.to_string())))
}

/// Loader answering from a `World`, recording every call.
pub struct ScriptedLoader<'w> {
  pub world: &'w World,
  pub log: RefCell<Vec<LoadCall>>,
  pub max_redirects: usize,
  /// per-specifier override consulted first (fault injection, edits)
  pub overrides: RefCell<HashMap<String, Resp>>,
  /// maximum number of loader calls before the build is declared non-terminating
  pub budget: usize,
}

pub const NONTERMINATION_MARKER: &str = "DGH-LOAD-BUDGET-EXCEEDED";

impl<'w> ScriptedLoader<'w> {
  pub fn new(world: &'w World) -> Self {
    let budget = 200 + 40 * world.specs.len();
    ScriptedLoader { world, log: RefCell::new(vec![]), max_redirects: 10, overrides: RefCell::new(HashMap::new()), budget }
  }

  pub fn respond(&self, specifier: &ModuleSpecifier) -> Result<Option<LoadResponse>, LoadError> {
    self.respond_with(specifier, CacheSetting::Use, None)
  }

  pub fn respond_with(
    &self,
    specifier: &ModuleSpecifier,
    cache_setting: CacheSetting,
    checksum: Option<&str>,
  ) -> Result<Option<LoadResponse>, LoadError> {
    if specifier.scheme() == "data" {
      return deno_graph::source::load_data_url(specifier).map_err(|e| other_load_error(&e.to_string()));
    }
    let Some(i) = self.world.spec_index(specifier) else {
      return Ok(None);
    };
    let r = &self.world.resp[i];
    if cache_setting == CacheSetting::Reload {
      if let Some((_, t)) = self.world.reload_redirect.iter().find(|(e, _)| *e == i) {
        return Ok(Some(LoadResponse::Redirect { specifier: self.world.specs[*t].clone() }));
      }
    }
    match r {
      Resp::Module { final_spec, headers, .. } => {
        let content = self.world.served(i, cache_setting == CacheSetting::Reload).unwrap();
        if let Some(c) = checksum {
          let actual = sha256_hex(&content);
          if actual != c {
            return Err(LoadError::ChecksumIntegrity(deno_graph::source::ChecksumIntegrityError { actual, expected: c.to_string() }));
          }
        }
        Ok(Some(LoadResponse::Module {
        content: Arc::from(content),
        mtime: None,
        specifier: self.world.specs[*final_spec].clone(),
        maybe_headers: headers.as_ref().map(|h| h.iter().cloned().collect()),
      }))
      }
      Resp::Redirect(t) => Ok(Some(LoadResponse::Redirect { specifier: self.world.specs[*t].clone() })),
      Resp::External(t) => Ok(Some(LoadResponse::External { specifier: self.world.specs[*t].clone() })),
      Resp::Missing => Ok(None),
      Resp::Error => Err(other_load_error("scripted loader error")),
    }
  }
}

fn cache_setting_str(c: CacheSetting) -> &'static str {
  match c {
    CacheSetting::Only => "only",
    CacheSetting::Use => "use",
    CacheSetting::Reload => "reload",
  }
}

impl Loader for ScriptedLoader<'_> {
  fn max_redirects(&self) -> usize {
    self.max_redirects
  }

  fn load(&self, specifier: &ModuleSpecifier, options: LoadOptions) -> LoadFuture {
    if self.log.borrow().len() >= self.budget {
      panic!("{}", NONTERMINATION_MARKER);
    }
    self.log.borrow_mut().push(LoadCall {
      specifier: specifier.to_string(),
      ensure_cached: false,
      cache_setting: cache_setting_str(options.cache_setting),
      checksum: options.maybe_checksum.map(|c| c.into_string()),
      in_dynamic_branch: options.in_dynamic_branch,
      was_dynamic_root: options.was_dynamic_root,
    });
    let last = self.log.borrow().last().cloned().unwrap();
    let r = self.respond_with(specifier, options.cache_setting, last.checksum.as_deref());
    Box::pin(async move { r })
  }

  fn ensure_cached(
    &self,
    specifier: &ModuleSpecifier,
    options: LoadOptions,
  ) -> deno_graph::source::EnsureCachedFuture {
    if self.log.borrow().len() >= self.budget {
      panic!("{}", NONTERMINATION_MARKER);
    }
    self.log.borrow_mut().push(LoadCall {
      specifier: specifier.to_string(),
      ensure_cached: true,
      cache_setting: cache_setting_str(options.cache_setting),
      checksum: options.maybe_checksum.map(|c| c.into_string()),
      in_dynamic_branch: options.in_dynamic_branch,
      was_dynamic_root: options.was_dynamic_root,
    });
    let last = self.log.borrow().last().cloned().unwrap();
    let r = self.respond_with(specifier, options.cache_setting, last.checksum.as_deref()).map(|v| {
      v.map(|r| match r {
        LoadResponse::Redirect { specifier } => deno_graph::source::CacheResponse::Redirect { specifier },
        LoadResponse::External { .. } | LoadResponse::Module { .. } => deno_graph::source::CacheResponse::Cached,
      })
    });
    Box::pin(async move { r })
  }
}

/// Executor that runs spawned futures inline (no runtime needed).
pub struct InlineExecutor;
impl deno_graph::Executor for InlineExecutor {
  fn execute(
    &self,
    fut: std::pin::Pin<Box<dyn std::future::Future<Output = ()> + 'static>>,
  ) -> std::pin::Pin<Box<dyn std::future::Future<Output = ()> + 'static>> {
    fut
  }
}

/// some specifier starts a chain of at least as many redirect hops as the loader admits per request
/// (10): whether the chain's end is reached or a too-many-redirects error is recorded, and where,
/// depends on the specifier at which a build enters the chain
pub fn redirect_budget_exceedable(w: &World) -> bool {
  (0..w.specs.len()).any(|i| {
    let mut cur = i;
    for _ in 0..10 {
      match &w.resp[cur] {
        Resp::Redirect(t) => cur = *t,
        _ => return false,
      }
    }
    true
  })
}
