#!/bin/sh
# Build the framework from files on disk only (offline).
set -e
cd "$(dirname "$0")"
export CARGO_NET_OFFLINE=true
mkdir -p work evidence
(cd harness && cargo build --release --offline)
./harness/target/release/dgh translate --repo /repo --out lean/DG/Tables.lean
(cd lean && lake build DG Proofs Theorems dgmodel)
