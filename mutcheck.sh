#!/bin/sh
# usage: mutcheck.sh <patch.diff> <prop> [prop...]   — apply a seeded change to /repo, run checks, undo it
P="$1"; shift
git -C /repo apply "$P" || { echo "patch does not apply"; exit 2; }
for id in "$@"; do
  ./check "$id" 2>&1 | grep -E "VIOLATION|KNOWN-FINDING|\[check\] C" | cut -c1-260
done
git -C /repo checkout -- .
