#!/usr/bin/env python3
"""import_seeded.py <PID> <mK> <detected-by text>: copy a confirmed seeded change into /verif/seeded/<PID>-<mK>/"""
import json, os, shutil, sys
pid, m, detected = sys.argv[1], sys.argv[2], sys.argv[3]
src = f"/tmp/mut/out_{pid}"
dst = f"/verif/seeded/{pid}-{m}"
os.makedirs(dst, exist_ok=True)
shutil.copy(f"{src}/{m}.patch.diff", f"{dst}/patch.diff")
shutil.copy(f"{src}/{m}_demo.rs", f"{dst}/demo.rs")
meta = json.load(open(f"{src}/{m}_meta.json"))
conf = [l.strip() for l in open(f"/tmp/mut/confirm_{pid}.txt") if l.startswith(f"{pid} {m} ")]
out = {
    "property": pid,
    "summary": meta.get("summary"),
    "needs": meta.get("needs"),
    "files": meta.get("files"),
    "author": "independent sub-agent given only the property text and a scratch worktree",
    "confirmed_by_me": {
        "how": "scratch worktree /tmp/mut/%s: demo copied to tests/, run on the clean tree (pass), patch applied, `cargo test --offline --lib --test integration_test` (all pass), demo (fail)" % pid,
        "result": conf,
    },
    "detected_by": detected,
    "agent_commands_run": meta.get("commands_run"),
}
json.dump(out, open(f"{dst}/meta.json", "w"), indent=1)
print("imported", dst)
